"""C23 — the HTTP/1.1 client completes every request exactly once with the exact body.

Engine E3 (net): a real HTTP11ClientProtocol on a detsim.net.SimTransport; the
peer is a scripted server.  Each run issues 1-2 body-less requests (GET / HEAD /
POST, persistent or not).  The response is built from a drawn specification
(0-2 interim 1xx responses; status line variants; entity headers; body framed by
Content-Length, chunked coding with extensions/trailers, connection close, or
absent for HEAD/204/304) and serialised either by h11 (server role, fed the
client's real request bytes) or by hand.  The serialiser labels every byte as
head / framing / body data, so the reference model is exact by construction and
needs no parser.  The tape then chooses: the loss position k (every byte offset
0..len), the segmentation of deliveries, when deliverBody is called (inside the
request callback, later, or only after the connection is gone), body-protocol
pause/resume of its producer, and the loss reason (clean / reset).

Oracle, compared after every operation against the labelled stream:
  * request Deferred: not fired before the final header block is complete; fired
    exactly once with a Response (right code/version/headers) as soon as it is;
    if the connection is lost first, fired exactly once with a failure;
  * body protocol: bytes delivered == body-data bytes among those delivered to
    the client; connectionLost exactly once — ResponseDone once the whole body
    arrived, PotentialDataLoss for a close-delimited body, another failure for
    a truncated Content-Length/chunked body — and never before that;
  * no exception escapes from dataReceived/connectionLost/deliverBody.

Families added after seeded changes (DESIGN 12): the second request issued re-entrantly from the first response's body
connectionLost; the body consumer that hangs up inside dataReceived on a transport reporting the loss at once; and
  * status codes: the final status is drawn from the usual few, from the whole IANA registry, or is any number 200-599;
    the model takes the framing from RFC 9112 section 6.3 alone (body-less: 1xx, 204, 304, responses to HEAD; everything
    else by Transfer-Encoding / Content-Length / close); interim responses use any 1xx code but 101;
  * application-initiated loss: HTTP11ClientProtocol.abort() called by the scheduler or from the request callback / the
    body consumer's connectionMade / dataReceived; the transport then reports the close; same expectations as any loss;
  * request body in transit: a POST whose IBodyProducer (Content-Length or chunked) is still producing while response
    bytes arrive, the connection is lost, or abort() is called; the producer's writes and its end are scheduler ops.
  * the quiescent callback (the hook a connection pool passes to HTTP11ClientProtocol, called when a persistent
    connection can be reused) does what pools do: returns, raises, gives the connection up (abort()), or starts the
    next request at once; the finished response's expectations are unchanged whatever the hook does;
  * a transport that hands over a few more pieces after pauseProducing (TLS transports do: what was already decrypted
    still arrives), so that several pieces are buffered by the Response before a consumer is attached; the consumer
    may hang up from inside dataReceived while deliverBody() is still handing over buffered pieces;
  * a server that stops making sense: the status line, or the size line of a chunk, is malformed.  The header block
    then never completes (request Deferred: exactly one failure), respectively the body never completes (consumer:
    exactly the body bytes before the malformation, connectionLost exactly once with a failure).
"""
import h11
from zope.interface import implementer

from twisted.internet import defer, error
from twisted.internet.protocol import Protocol
from twisted.python.failure import Failure
from twisted.web import _newclient
from twisted.web.http import PotentialDataLoss
from twisted.web.http_headers import Headers
from twisted.web.iweb import IBodyProducer, UNKNOWN_LENGTH
from detsim import net

ID = "C23"
ENGINE = "net"
LEVEL = "exploration"
TECHNIQUE = ("deterministic simulation: real HTTP11ClientProtocol against scripted, byte-labelled server responses "
             "(h11-serialised and hand-built); seeded truncation point, segmentation, deliverBody timing, producer pause/resume")
QUICK_RUNS = 60000
TWIN_P = 0.08   # this share of the runs drives two independent instances of the scenario one after the other (detsim.runner._run_scenario)
BATCH = 250
RUN_WALL_LIMIT_S = 120   # runs take milliseconds; generous so that an overloaded host is not mistaken for a hang
COMPONENTS = {"real": ["twisted.web._newclient.HTTP11ClientProtocol", "twisted.web._newclient.HTTPClientParser", "twisted.web._newclient.Response",
                       "twisted.web._newclient.TransportProxyProducer", "twisted.web.http._IdentityTransferDecoder/_ChunkedTransferDecoder",
                       "twisted.web._newclient.Request.writeTo (body-less; in a few runs with a body producer still in transit)",
                       "twisted.web._newclient.HTTP11ClientProtocol.abort"],
              "stub": ["TCP transport (detsim.net.SimTransport)", "scripted HTTP server (h11 / hand serialiser)", "body protocol (recorder that pauses/resumes)",
                       "request body producer (scheduler-driven IBodyProducer)"]}
RULE = ("run = 1-2 requests on one connection; per request a drawn response spec (status code: common / any registered / any 200-599), "
        "serialiser, loss offset k in [0,len], delivery segmentation, "
        "deliverBody timing and pause/resume schedule; in a share of the rounds the loss is caused by the application (abort() from the "
        "scheduler, the request callback or the body consumer) and/or the request has a body still in transit; the quiescent callback returns / "
        "raises / aborts / issues the next request; the transport may deliver a few pieces after being paused; the consumer may hang up "
        "while buffered pieces are handed over; the status line or a chunk-size line may be malformed; non-trivial = the connection was lost strictly inside a response (0<k<len) or the "
        "response used chunked/close framing or an interim 1xx, and at least one delivery was segmented")
ASSUMPTIONS = ["responses are well-formed HTTP/1.x messages (CRLF line endings) except in the malformed-line family below; requests have no body (C24 covers request bodies) except in the "
               "request-body-in-transit family, whose producer writes exactly its announced length and never fails",
               "connection loss may be reported while the transport is paused (ITransport allows it)",
               "a transport told to close (abort(), or the client's own loseConnection) delivers no further bytes and reports the loss later",
               "while a request body is in transit the statement's 'once its headers are complete' gives no verdict on the moment: the check "
               "only demands no early result, the response once it is complete or the request is written, and exactly one result (response or "
               "failure) once the connection is lost",
               "status codes outside 200-599 and the interim code 101 are not generated",
               "knobs abort_in_close_body / abort_while_transmitting (p=0.75 each, only in rounds with an abort) gate the preconditions of two "
               "genuine defects found by these families and repaired in /repo in round 5 (864f11a: abort() inside a close-delimited body, consumer "
               "never told; ed25b2f: abort() while the request body is in transit, request Deferred never fired); the remaining quarter of the abort rounds "
               "keeps away from them (dev-time comparison with a tree without the repairs)",
               "a transport may hand over a few more pieces after pauseProducing (IPushProducer.pauseProducing is advisory about data "
               "already in flight; TLSMemoryBIOProtocol delivers everything it has decrypted)",
               "malformed input is limited to spellings every HTTP/1.x parser must reject (status line without a status code, non-numeric "
               "status code, version without a minor number; chunk-size lines that are not hexadecimal); the statement's 'otherwise with a "
               "failure' / 'a failure for a truncated one' is applied to them: no verdict on the moment the failure is reported before the "
               "connection is gone, only that no Response / no ResponseDone is reported and that exactly one failure has been by then",
               "knobs (module constants below, drawn per run/round) gate the preconditions of two genuine defects of the tree as first examined, "
               "found in round 6 and REPAIRED in /repo: MALFORMED_WHILE_TRANSMITTING_P (f7168f5; malformed response while the request body is in "
               "transit: the request Deferred never fired, connectionLost raised AttributeError) and REQUEST_FROM_QUIESCENT_CALLBACK_P (177d173; "
               "request() issued from inside the quiescent callback: the new request was failed at once and the finished response's consumer was "
               "never told); each precondition is let into a quarter of the runs (0.25; 0 only for dev-time comparison); "
               "their violations carry the witness suffixes '+malformed-while-transmitting' / '+request-from-quiescent-callback'"]

# Knobs gating the preconditions of genuine defects since REPAIRED in /repo (f7168f5, 177d173; see ASSUMPTIONS): probability that a run /
# round may enter the precondition (0 only for dev-time comparison).
MALFORMED_WHILE_TRANSMITTING_P = 0.25
REQUEST_FROM_QUIESCENT_CALLBACK_P = 0.25

PIECES = [None, 1, 2, 3, 5, 8, 17, 64]
NEVER = 10 ** 9          # "offset" of an end that is never reached
# a status line needs a version with major.minor and a numeric status code; a chunk size is 1*HEXDIG (RFC 9112 sections 4, 7.1)
BAD_STATUS_LINES = [b"garbage", b"HTTP/1.1", b"HTTP/1.1 2x0 OK", b"HTTP/1 200 OK", b"HTTP/1.1 OK"]
BAD_CHUNK_SIZES = [b"zz", b"1g", b"-1", b"0x2", b"+3"]


def show(results):
    """Address-free rendering of request results / failures for details."""
    out = []
    for r in results:
        if isinstance(r, Failure):
            out.append("Failure(%s: %s)" % (r.type.__name__, str(r.value)[:80]))
        else:
            out.append("Response(%s)" % getattr(r, "code", "?"))
    return "[" + ", ".join(out) + "]"


class Seg:
    """Labelled response byte stream."""

    def __init__(self):
        self.parts = []      # (kind, bytes)

    def add(self, kind, data):
        if data:
            self.parts.append((kind, bytes(data)))

    def finish(self):
        self.wire = b"".join(d for _, d in self.parts)
        self.data_ranges = []
        self.head_end = None
        self.interim_ends = []
        self.bad_from = None     # offset of the first malformed byte, if the server stops making sense
        off = 0
        for kind, d in self.parts:
            if kind == "bad" and self.bad_from is None:
                self.bad_from = off
            if kind == "data":
                self.data_ranges.append((off, off + len(d)))
            off += len(d)
            if kind == "head":
                self.head_end = off
            if kind == "interim":
                self.interim_ends.append(off)
        self.end = off
        if self.bad_from is not None:
            self.end = NEVER               # the message never completes ...
            if self.head_end is None:
                self.head_end = NEVER      # ... nor does its header block, if the status line is the malformed part

    def malform(self, sim, where):
        """Replace the status line of the final response (where="status") or the size line of one chunk (where="chunk") by
        something every HTTP/1.x parser must reject; what followed it on the wire is kept as unlabelled junk."""
        parts = self.parts
        if where == "status":
            i = [j for j, (kind, _) in enumerate(parts) if kind == "head"][0]
            rest = parts[i][1].split(b"\r\n", 1)[1]
            bad = sim.draw_choice(BAD_STATUS_LINES, "bad_status_line") + b"\r\n" + rest
        else:
            sizes = [j for j, (kind, d) in enumerate(parts) if kind == "fr" and d != b"\r\n"]
            i = sizes[sim.draw_int(0, len(sizes) - 1, "bad_chunk_no")]
            bad = sim.draw_choice(BAD_CHUNK_SIZES, "bad_chunk_size") + b"\r\nxy\r\n"
        self.parts = parts[:i] + [("bad", bad)] + [("junk", d) for _, d in parts[i + 1:]]

    def body_received(self, pos):
        return b"".join(self.wire[s:min(e, pos)] for s, e in self.data_ranges if s < pos)


class Body(Protocol):
    def __init__(self, sim, rec, pause_p):
        self.sim, self.rec, self.pause_p = sim, rec, pause_p

    def connectionMade(self):
        self.rec["made"] += 1
        hook = self.rec.get("on_made")
        if hook is not None:
            hook(self)
        if self.pause_p and self.sim.draw_bool(self.pause_p, "pause_on_connect"):
            self.sim.probe("body_paused")
            self.transport.pauseProducing()

    def dataReceived(self, data):
        self.rec["data"] += data
        if self.rec["lost"]:
            self.rec["data_after_lost"] = True
        hook = self.rec.get("on_data")
        if hook is not None:
            hook(self)
        if self.pause_p and self.sim.draw_bool(self.pause_p, "pause_in_data"):
            self.sim.probe("body_paused")
            self.transport.pauseProducing()

    def connectionLost(self, reason):
        self.rec["lost"].append(reason)
        hook = self.rec.get("on_lost")
        if hook is not None:
            hook()


@implementer(IBodyProducer)
class RequestBody:
    """A request body the scheduler produces piece by piece: while it is unfinished the request is still being transmitted."""

    def __init__(self, length, total):
        self.length = length          # announced length, or UNKNOWN_LENGTH (chunked request)
        self.left = total             # bytes still to be written
        self.consumer = None
        self.d = None
        self.open = True              # neither finished nor told to stop
        self.stopped = 0

    def startProducing(self, consumer):
        self.consumer = consumer
        self.d = defer.Deferred()
        return self.d

    def write(self, n):
        n = min(n, self.left)
        self.left -= n
        self.consumer.write(b"q" * n)

    def finish(self):
        self.open = False
        self.d.callback(None)

    def stopProducing(self):
        self.stopped += 1
        self.open = False

    def pauseProducing(self):
        pass

    def resumeProducing(self):
        pass


# ------------------------------------------------------------------ response generation

HDR_POOL = [(b"X-A", b"1"), (b"x-b", b"two words"), (b"Content-Type", b"text/plain"), (b"Set-Cookie", b"a=1"),
            (b"Set-Cookie", b"b=2"), (b"ETag", b'"v"'), (b"X-Long", b"v" * 70)]
BODY_ALPHA = b"ab\r\n0;:\x00\xff"
# Final status codes of the IANA registry (RFC 9110 and extensions).  Message framing (RFC 9112 section 6.3) makes exactly
# 204, 304 (and every response to HEAD, and the interim 1xx) body-less; every other code - whatever its semantics say about
# content - is framed by Transfer-Encoding / Content-Length / connection close, which is what the labelled stream encodes.
REGISTERED_CODES = ([200, 201, 202, 203, 204, 205, 206, 207, 208, 226, 300, 301, 302, 303, 304, 305, 307, 308]
                    + list(range(400, 419)) + [421, 422, 423, 424, 425, 426, 428, 429, 431, 451]
                    + [500, 501, 502, 503, 504, 505, 506, 507, 508, 510, 511])
BODYLESS_CODES = (204, 304)
# interim responses: any 1xx but 101 (Switching Protocols ends HTTP on the connection and is never sent unasked)
INTERIM_CODES = [100, 102, 103, 110, 199]
INTERIM_REASONS = {100: b"Continue", 102: b"Processing", 103: b"Early Hints"}


def draw_spec(sim, method):
    spec = {}
    spec["interims"] = []
    for _ in range(sim.draw_weighted([(0, 6), (1, 2), (2, 1)], "ninterim")):
        code = sim.draw_choice(INTERIM_CODES, "icode")
        hs = [(b"Link", b"</s.css>; rel=preload")] if sim.draw_bool(0.4, "ihdr") else []
        spec["interims"].append((code, hs))
    code = sim.draw_weighted([(200, 8), (404, 2), (500, 1), (201, 1), (204, 2), (304, 2), (301, 1), ("registered", 4), ("any", 2)], "code")
    if code == "registered":
        code = sim.draw_choice(REGISTERED_CODES, "registered_code")
        sim.probe("status_code_from_registry")
    elif code == "any":
        code = 200 + sim.draw_int(0, 399, "any_code")       # any final status code, assigned or not
        sim.probe("status_code_arbitrary")
    spec["code"] = code
    nh = sim.draw_int(0, 3, "nhdr")
    spec["headers"] = [sim.draw_choice(HDR_POOL, "hdr") for _ in range(nh)]
    nobody = method == b"HEAD" or code in BODYLESS_CODES
    if nobody:
        spec["framing"] = "none"
        spec["body"] = b""
        # a HEAD response may still announce the length of the entity
        spec["announce_cl"] = sim.draw_choice([None, 0, 7, 1000], "head_cl") if method == b"HEAD" else None
    else:
        spec["framing"] = sim.draw_weighted([("cl", 4), ("chunked", 4), ("close", 2)], "framing")
        n = sim.draw_weighted([(0, 2), (1, 2), (5, 3), (20, 3), (70, 2), (300, 1)], "bodylen")
        if spec["framing"] == "close" and n == 0:
            n = 1
        spec["body"] = sim.draw_bytes(n, BODY_ALPHA) if n <= 20 else (sim.draw_bytes(8, BODY_ALPHA) * (n // 8 + 1))[:n]
        spec["announce_cl"] = None
    spec["conn_close"] = sim.draw_bool(0.25, "conn_close")
    # chunk layout
    chunks = []
    if spec["framing"] == "chunked":
        rest = spec["body"]
        while rest:
            c = sim.draw_int(1, len(rest), "chunklen")
            chunks.append(rest[:c])
            rest = rest[c:]
    spec["chunks"] = chunks
    return spec


def serialise_hand(sim, spec, seg):
    for code, hs in spec["interims"]:
        line = b"HTTP/1.1 %d %s\r\n" % (code, INTERIM_REASONS.get(code, b"Interim"))
        seg.add("interim", line + b"".join(n + b": " + v + b"\r\n" for n, v in hs) + b"\r\n")
    version = sim.draw_choice([b"HTTP/1.1", b"HTTP/1.0", b"HTTP/1.1"], "version")
    spec["version"] = version
    reason = sim.draw_choice([b" OK", b"", b" ", b" Some Long Reason Phrase"], "reason")
    head = version + b" %d" % spec["code"] + reason + b"\r\n"
    hs = list(spec["headers"])
    fr = spec["framing"]
    if fr == "cl":
        hs.insert(sim.draw_int(0, len(hs), "clpos"), (sim.draw_choice([b"Content-Length", b"content-length", b"CONTENT-LENGTH"], "clname"),
                                                      b"%d" % len(spec["body"])))
    elif fr == "chunked":
        hs.insert(sim.draw_int(0, len(hs), "tepos"), (sim.draw_choice([b"Transfer-Encoding", b"transfer-encoding"], "tename"),
                                                      sim.draw_choice([b"chunked", b"Chunked"], "teval")))
    if spec["announce_cl"] is not None:
        hs.append((b"Content-Length", b"%d" % spec["announce_cl"]))
    if spec["conn_close"]:
        hs.append((b"Connection", b"close"))
    for n, v in hs:
        head += n + sim.draw_choice([b": ", b":", b":  "], "colon") + v + b"\r\n"
    seg.add("head", head + b"\r\n")
    if fr in ("cl", "close"):
        seg.add("data", spec["body"])
    elif fr == "chunked":
        for c in spec["chunks"]:
            size = sim.draw_choice([b"%x", b"%X", b"0%x"], "hexfmt") % len(c)
            ext = sim.draw_choice([b"", b"", b";x=1", b";name"], "ext")
            seg.add("fr", size + ext + b"\r\n")
            seg.add("data", c)
            seg.add("fr", b"\r\n")
        trailers = sim.draw_choice([b"", b"", b"X-T: 1\r\n", b"X-T: 1\r\nX-U: 22\r\n"], "trailers")
        seg.add("fr", b"0\r\n" + trailers + b"\r\n")


def serialise_h11(sim, spec, seg, request_bytes, method):
    conn = h11.Connection(h11.SERVER)
    conn.receive_data(request_bytes)
    ev = conn.next_event()
    assert isinstance(ev, h11.Request), ev
    assert ev.method == method, (ev.method, method)
    ev = conn.next_event()
    assert isinstance(ev, h11.EndOfMessage), ev
    for code, hs in spec["interims"]:
        seg.add("interim", conn.send(h11.InformationalResponse(status_code=code, headers=hs)))
    spec["version"] = b"HTTP/1.1"
    hs = list(spec["headers"])
    fr = spec["framing"]
    if fr == "cl":
        hs.append((b"Content-Length", b"%d" % len(spec["body"])))
    elif fr == "chunked":
        hs.append((b"Transfer-Encoding", b"chunked"))
    if spec["announce_cl"] is not None:
        hs.append((b"Content-Length", b"%d" % spec["announce_cl"]))
    if spec["conn_close"]:
        hs.append((b"Connection", b"close"))
    seg.add("head", conn.send(h11.Response(status_code=spec["code"], headers=hs)))
    if fr == "cl":
        if spec["body"]:
            out = conn.send(h11.Data(data=spec["body"]))
            assert out == spec["body"]
            seg.add("data", out)
    elif fr == "chunked":
        for c in spec["chunks"]:
            out = conn.send(h11.Data(data=c))
            pre = b"%x\r\n" % len(c)
            assert out == pre + c + b"\r\n", out
            seg.add("fr", pre)
            seg.add("data", c)
            seg.add("fr", b"\r\n")
    tr = [(b"X-T", b"1")] if (fr == "chunked" and sim.draw_bool(0.3, "h11_trailers")) else []
    seg.add("fr", conn.send(h11.EndOfMessage(headers=tr)))


# ------------------------------------------------------------------ one request/response round

def issue(sim, proto, t, round_no, origin=None):
    """Issue one request now (possibly from inside a callback); the response is driven later by one_round(pre=...)."""
    method = sim.draw_weighted([(b"GET", 5), (b"HEAD", 2), (b"POST", 1)], "method")
    persistent = sim.draw_bool(0.5, "persistent")
    nwritten = len(t.written)
    req = _newclient.Request(method, b"/r%d" % round_no, Headers({b"host": [b"sim.example"]}), None, persistent=persistent)
    pre = {"method": method, "persistent": persistent, "results": [], "on_result": None, "origin": origin}

    def cb(res):
        pre["results"].append(res)
        if pre["on_result"] is not None:
            pre["on_result"](res)
        return None

    with sim.guard("raised", "request"):
        d = proto.request(req)
    d.addBoth(cb)
    pre["request_bytes"] = bytes(t.written[nwritten:])
    t.take()
    return pre


def one_round(sim, proto, t, round_no, flags, pre=None, on_body_lost=None):
    if pre is None:
        method = sim.draw_weighted([(b"GET", 5), (b"HEAD", 2), (b"POST", 1)], "method")
        persistent = sim.draw_bool(0.5, "persistent")
    else:
        method, persistent = pre["method"], pre["persistent"]
    spec = draw_spec(sim, method)
    # Family: the request carries a body that is still being transmitted while the response arrives / the connection goes
    # away (a server may answer, or hang up, before it has read the whole request).  The body producer is driven by the
    # scheduler ("tx_write"/"tx_finish" ops).
    tx = None
    if pre is None and method == b"POST" and sim.draw_bool(0.5, "request_body_in_transit"):
        n = sim.draw_int(1, 12, "request_body_len")
        tx = RequestBody(UNKNOWN_LENGTH if sim.draw_bool(0.4, "request_body_chunked") else n, n)
        sim.probe("request_with_body_in_transit")
    # Family: the server stops making sense (malformed status line / chunk-size line).
    malformed = sim.draw_weighted([(None, 14), ("status", 1), ("chunk", 1)], "malformed")
    if malformed == "chunk" and spec["framing"] != "chunked":
        malformed = None
    if malformed and tx is not None and not flags.get("malformed_while_transmitting"):
        malformed = None         # knob: see ASSUMPTIONS (repaired defect's precondition let into a quarter of the runs)
    if spec["framing"] == "close" or tx is not None or malformed:
        use_h11 = False          # h11 never produces a close-delimited body for an HTTP/1.1 client (and is fed body-less requests here)
    else:
        use_h11 = sim.draw_bool(0.5, "h11")
    nwritten = len(t.written)
    req = None if pre is not None else _newclient.Request(method, b"/r%d" % round_no, Headers({b"host": [b"sim.example"]}), tx, persistent=persistent)
    results = [] if pre is None else pre["results"]
    rec = {"made": 0, "data": b"", "lost": [], "data_after_lost": False, "on_lost": on_body_lost}
    st = {"body": None, "attach": sim.draw_weighted([("callback", 4), ("later", 4), ("after_loss", 2)], "attach"), "attaching": False}
    # Family: a transport that still hands over this many pieces after it was told to pause (what it had already received).
    paused_credit = [sim.draw_weighted([(0, 5), (1, 1), (2, 2), (4, 1)], "deliveries_after_pause")]
    # Family: what the quiescent callback (the connection pool's hook) does when this round's response has completed on a
    # persistent connection.
    qc_mode = sim.draw_weighted([("return", 12), ("raise", 3), ("abort", 1), ("request", 2)], "quiescent_callback")
    if qc_mode == "request" and not (round_no == 0 and pre is None and flags.get("request_from_quiescent_callback")):
        qc_mode = "return"       # knob: see ASSUMPTIONS (repaired defect's precondition let into a quarter of the runs)
    qc = {"requested": pre is not None and pre["origin"] == "quiescent_callback"}   # this round's request, or the next one, was issued by the hook

    def on_quiescent():
        sim.event("quiescent-callback", qc_mode)
        sim.probe("quiescent_callback_" + qc_mode)
        if qc_mode == "raise":
            sim.fault("quiescent_callback_raised")
            raise RuntimeError("the pool refuses the connection")
        if qc_mode == "abort":
            do_abort("quiescent-callback")
        elif qc_mode == "request":
            flags["issue_second"]("quiescent_callback")
            qc["requested"] = bool(flags.get("second_issued"))

    flags["on_quiescent"] = on_quiescent

    msuf = ("+malformed-while-transmitting" if tx is not None else "+malformed") if malformed else ""

    def suffix():
        return ("+abort" if ab["done"] else "") + msuf + ("+request-from-quiescent-callback" if qc["requested"] else "")
    pause_p = sim.draw_choice([0.0, 0.0, 0.3], "pause_p")
    abort_from = sim.draw_weighted([(None, 16), ("scheduler", 3), ("request-callback", 1), ("body-connectionMade", 1), ("body-dataReceived", 2)], "abort_from")
    if abort_from == "request-callback":
        abort_from = "callback"
    abort_phase = sim.draw_choice(["body", "any"], "abort_phase") if abort_from == "scheduler" else "any"
    knobs = {"abort_in_close_body": sim.draw_bool(0.75, "abort_in_close_body") if abort_from else False,
             "abort_while_transmitting": sim.draw_bool(0.75, "abort_while_transmitting") if (abort_from and tx is not None) else False}

    def attach():
        resp = results[0]
        st["body"] = Body(sim, rec, pause_p)
        sim.event("deliverBody")
        st["attaching"] = True
        try:
            with sim.guard("raised", "deliverBody"):
                resp.deliverBody(st["body"])
        finally:
            st["attaching"] = False

    def on_result(res):
        if pre is None:
            results.append(res)
        sim.event("request-result", "F:" + res.type.__name__ if isinstance(res, Failure) else "response %d" % res.code)
        if not isinstance(res, Failure) and len(results) == 1:
            if abort_from == "callback" and sim.draw_bool(0.5, "abort_before_attach"):
                do_abort("request-callback")
            if st["attach"] == "callback":
                attach()
            if abort_from == "callback":
                do_abort("request-callback")
        return None

    if pre is None:
        with sim.guard("raised", "request"):
            d = proto.request(req)
        d.addBoth(on_result)
        request_bytes = bytes(t.written[nwritten:])
        t.take()
    else:
        pre["on_result"] = on_result
        request_bytes = pre["request_bytes"]
    seg = Seg()
    if use_h11:
        serialise_h11(sim, spec, seg, request_bytes, method)
    else:
        serialise_hand(sim, spec, seg)
    if malformed:
        seg.malform(sim, malformed)
        sim.fault("malformed_" + malformed + "_line")
    seg.finish()
    S = seg.wire
    total = len(S)
    k = sim.draw_int(0, total, "cut_at") if sim.draw_bool(0.7, "cut") else total
    clean = sim.draw_bool(0.5, "clean_loss")
    style = sim.draw_choice(PIECES, "piece_style")   # None = whole, else max piece size
    sim.event("round", round_no, method, "persistent" if persistent else "close", "h11" if use_h11 else "hand",
              spec["framing"], spec["code"], "interims=%d" % len(spec["interims"]), "len=%d" % total, "k=%d" % k, "malformed=%s" % malformed, S)
    framing = spec["framing"]
    resp_close = spec["conn_close"] or not persistent or b"connection: close" in S[:seg.head_end].lower()
    pos = 0
    lost = [None]
    lost_tx = [False]       # the request body was still in transit when the connection was lost

    def check():
        head_done = pos >= seg.head_end
        body_done = framing != "close" and pos >= seg.end
        sim.check("request-fires-at-most-once", len(results) <= 1, "deferred", lambda: "results %s" % show(results))
        if ab["in_transit"] and lost[0] is not None:
            # abort() met a request whose body was still being written: the loss it causes must fire the request Deferred
            sim.check("request-fires-after-abort-in-transit", len(results) == 1, "head-complete" if head_done else "before-head",
                      lambda: "abort() while the request body was in transit, connection lost after %d response bytes: results=%s" % (pos, show(results)))
        in_transit = lost_tx[0] if lost[0] is not None else transmitting()
        if in_transit:
            # The request body is (was, when the connection went) still being written.  The statement's "once its headers
            # are complete" gives no verdict on the moment then - the client hands the response over when the request has
            # been written or the response is complete, and fails a request whose transmission the loss interrupted even
            # if a header block had arrived.  What remains: nothing fires early, a complete response is handed over, and
            # a lost connection fires the Deferred - exactly once (clause above), with a failure unless the response won.
            if lost[0] is None:
                if not results:
                    sim.check("response-when-complete", not (framing != "close" and pos >= seg.end), "request-body-in-transit",
                              lambda: "whole response delivered (%d bytes), request body still in transit, request Deferred silent" % pos)
                    return
            else:
                sim.check("request-fires-when-lost", len(results) == 1, "request-body-in-transit" + msuf,
                          lambda: "connection lost after %d response bytes while the request body was being written%s: results=%s"
                          % (pos, " (application abort)" if ab["done"] else "", show(results)))
                if isinstance(results[0], Failure):
                    return
        if head_done:
            sim.check("response-when-headers-complete", len(results) == 1 and not isinstance(results[0], Failure), framing + suffix().replace("+abort", ""),
                      lambda: "header block complete at %d, delivered %d bytes, results=%s wire=%r" % (seg.head_end, pos, show(results), S[:pos]))
            r = results[0]
            sim.check("response-code", r.code == spec["code"], "response", "code %r expected %r" % (r.code, spec["code"]))
            vers = (b"HTTP", 1, 1) if spec["version"] == b"HTTP/1.1" else (b"HTTP", 1, 0)
            sim.check("response-version", r.version == vers, "response", "version %r expected %r" % (r.version, vers))
            want = {}
            for n, v in spec["headers"]:
                want.setdefault(n.lower(), []).append(v)
            for n in sorted(want):
                got = r.headers.getRawHeaders(n)
                sim.check("response-headers", got == want[n], "response", lambda: "header %r: got %r expected %r" % (n, got, want[n]))
            for n in (b"link", b"x-t"):
                sim.check("response-headers", not r.headers.hasHeader(n), "interim-or-trailer-leaked",
                          lambda: "header %r of an interim response/trailer appears in the final response" % n)
            explen = {"none": 0, "cl": len(spec["body"])}.get(framing, _newclient.UNKNOWN_LENGTH)
            sim.check("response-length", r.length == explen, framing, "length %r expected %r" % (r.length, explen))
        elif lost[0] is not None:
            sim.check("failure-when-lost-before-headers", len(results) == 1 and isinstance(results[0], Failure), "deferred" + suffix().replace("+abort", ""),
                      lambda: "lost after %d bytes (header block ends at %d): results=%s" % (pos, seg.head_end, show(results)))
        elif malformed == "status" and pos > seg.bad_from:
            # the client may already have seen that the status line is malformed: a failure may have been reported, a Response not
            sim.check("no-response-without-header-block", not [r for r in results if not isinstance(r, Failure)], "malformed-status-line",
                      lambda: "fired with %s; status line malformed from offset %d, delivered %d" % (show(results), seg.bad_from, pos))
        else:
            sim.check("no-early-result", not results, "deferred" + suffix().replace("+abort", ""), lambda: "fired with %s after %d of %d header bytes" % (show(results), pos, seg.head_end))
        if st["body"] is not None:
            exp = seg.body_received(pos)
            sim.check("body-bytes-equal", rec["data"] == exp, framing,
                      lambda: "delivered %r expected %r (pos=%d wire=%r)" % (rec["data"], exp, pos, S[:pos]))
            sim.check("body-made-once", rec["made"] == 1, "body", "makeConnection x%d" % rec["made"])
            sim.check("no-data-after-lost", not rec["data_after_lost"], "body", "dataReceived after connectionLost")
            if body_done or lost[0] is not None:
                sim.check("body-connectionLost-once", len(rec["lost"]) == 1, framing + suffix(),
                          lambda: "connectionLost x%d (body_done=%s lost=%s) reasons=%s" % (len(rec["lost"]), body_done, lost[0] is not None, show(rec["lost"])))
                rs = rec["lost"][0]
                if body_done:
                    ok = rs.check(_newclient.ResponseDone) is not None
                    want_r = "ResponseDone"
                elif framing == "close":
                    ok = rs.check(PotentialDataLoss) is not None
                    want_r = "PotentialDataLoss"
                else:
                    ok = isinstance(rs, Failure) and rs.check(_newclient.ResponseDone, PotentialDataLoss) is None
                    want_r = "a failure (truncated)"
                sim.check("body-loss-reason", ok, framing + ":" + want_r.split()[0],
                          lambda: "connectionLost(%s) expected %s; pos=%d end=%d" % (show([rs]), want_r, pos, seg.end))
            elif malformed and pos > seg.bad_from:
                # the client may already have seen the malformed chunk-size line: the body may have been ended - with a failure
                sim.check("body-connectionLost-once", len(rec["lost"]) <= 1, framing + suffix(),
                          lambda: "connectionLost x%d after a malformed chunk-size line: %s" % (len(rec["lost"]), show(rec["lost"])))
                sim.check("body-loss-reason", not rec["lost"] or rec["lost"][0].check(_newclient.ResponseDone, PotentialDataLoss) is None,
                          framing + ":a" + msuf, lambda: "connectionLost(%s) for a body cut short by a malformed chunk-size line" % show(rec["lost"]))
            else:
                sim.check("body-not-finished-early", not rec["lost"], framing,
                          lambda: "connectionLost(%s) after %d of %d bytes, connection up" % (show(rec["lost"]), pos, seg.end))

    def lose():
        reason = Failure(error.ConnectionDone() if (clean or t.disconnecting) else error.ConnectionLost())
        lost[0] = reason
        lost_tx[0] = transmitting()
        if lost_tx[0]:
            sim.fault("connection_lost_with_request_body_in_transit")
        sim.event("lose", pos, reason.type.__name__)
        if ab["done"]:
            sim.fault("connection_lost_by_application_abort")
            if st["body"] is not None and not rec["lost"]:
                sim.probe("abort_loss_with_body_consumer_attached")
            if not results:
                sim.probe("abort_loss_before_header_block")
        if pos < total:
            sim.fault("connection_lost_inside_response")
            flags["cut_inside"] = flags.get("cut_inside", 0) + (1 if pos > 0 else 0)
        else:
            sim.fault("connection_lost_after_response")
        with sim.guard("raised", "connectionLost" + msuf):
            t.lose(reason)

    # Family: the APPLICATION gives the connection up - HTTP11ClientProtocol.abort() ("close the connection and cause all
    # outstanding request Deferreds to fire with an error").  It is one more cause of connection loss at a byte position:
    # the transport is told to close, stops reading, and reports the loss later (the scheduler's "lose" op).  abort() is
    # called by the scheduler between deliveries, or re-entrantly from application code the client calls: the request
    # callback, the body consumer's connectionMade, the body consumer's dataReceived (then the rest of that delivery is
    # still parsed with the abort pending).  The expectations are the statement's, unchanged: a failure on the request
    # Deferred if the header block is incomplete, else the body consumer's connectionLost exactly once with
    # ResponseDone / PotentialDataLoss / a failure according to what had arrived.
    ab = {"done": False, "in_transit": False}

    def abort_allowed():
        if ab["done"] or lost[0] is not None or t.disconnecting or proto.state == "CONNECTION_LOST":
            return False
        if framing == "close" and pos >= seg.head_end and not knobs["abort_in_close_body"]:
            return False      # knob: see ASSUMPTIONS (repaired defect's precondition kept out of a quarter of the abort rounds)
        if transmitting() and not knobs["abort_while_transmitting"]:
            return False      # knob: likewise
        return True

    def transmitting():
        return tx is not None and tx.open

    def do_abort(where):
        if not abort_allowed():
            return
        ab["done"] = True
        if transmitting():
            ab["in_transit"] = True
            sim.probe("abort_with_request_body_in_transit")
        sim.event("abort", where, pos)
        sim.probe("abort_from_" + where)
        with sim.guard("raised", "abort"):
            proto.abort()

    def on_made(body):
        if abort_from == "body-connectionMade":
            do_abort("body-connectionMade")

    rec["on_made"] = on_made

    # Family: the body consumer hangs up from inside its own dataReceived and the transport reports the loss at once
    # (in-memory / test transports do; ITransport does not forbid it), i.e. connectionLost reaches the client protocol
    # re-entrantly beneath the dataReceived call that delivered those body bytes.  Only for Content-Length and
    # close-delimited bodies, and only once the consumer holds every body byte the protocol has been given, so that the
    # model's position-based expectations stay exact.
    # While deliverBody() is still handing over pieces the Response had buffered (consumer attached late), the consumer may
    # hang up on any of them, for every framing: no delivery is being parsed then, and the pieces not yet handed over were
    # received before the loss, so the position-based expectations hold once deliverBody() has returned.
    hang_target = None
    late = st["attach"] != "callback" and (paused_credit[0] > 0 or len(spec["chunks"]) > 1)    # several pieces may get buffered
    if spec["body"] and not malformed and sim.draw_bool(0.4 if late else 0.12, "consumer_hangs_up"):
        hang_target = len(spec["body"]) if sim.draw_bool(0.25 if late else 0.7, "hang_at_end") else \
            sim.draw_int(1, min(len(spec["body"]), 6) if late else len(spec["body"]), "hang_after")    # late: early in the body, among the buffered pieces

    def on_data(body):
        if abort_from == "body-dataReceived" and sim.draw_bool(0.4, "abort_in_data"):
            do_abort("body-dataReceived")
        if hang_target is None or lost[0] is not None or len(rec["data"]) < hang_target:
            return
        behind = rec["data"] != seg.body_received(pos)
        if not st["attaching"] and (behind or framing == "chunked"):
            return
        if behind:
            sim.probe("consumer_hung_up_with_buffered_pieces_pending")
        sim.probe("consumer_hung_up_inside_dataReceived")
        sim.event("consumer-hangs-up", len(rec["data"]))
        body.transport.stopProducing()
        lose()

    rec["on_data"] = on_data
    check()
    for _ in range(2000):
        sim.step(5000)
        can_deliver = pos < k and (t.reading or paused_credit[0] > 0) and not t.disconnecting and lost[0] is None
        can_attach = st["body"] is None and results and not isinstance(results[0], Failure) and \
            (st["attach"] == "later" or (st["attach"] == "after_loss" and lost[0] is not None))
        can_resume = st["body"] is not None and not t.reading and lost[0] is None
        at_end = lost[0] is None and (pos >= k or t.disconnecting)
        ops = [("deliver", 12 if can_deliver else 0),
               ("attach", 3 if can_attach else 0),
               ("resume", 4 if can_resume else 0),
               ("lose", (6 if at_end else 0) + (1 if (lost[0] is None and not t.reading and pos < k) else 0)),
               ("abort", 2 if (abort_from == "scheduler" and abort_allowed() and (abort_phase == "any" or pos >= seg.head_end)) else 0),
               ("tx_write", 10 if (tx is not None and tx.open and tx.left and lost[0] is None) else 0),
               ("tx_finish", 10 if (tx is not None and tx.open and not tx.left and lost[0] is None) else 0)]
        if not any(w for _, w in ops):
            break
        op = sim.draw_weighted(ops, "op")
        if op == "deliver":
            n = k - pos
            if style is not None:
                n = min(n, sim.draw_int(1, style, "piece"))
                if n < k - pos:
                    sim.fault("segmentation")
            piece = S[pos:pos + n]
            pos += n
            if not t.reading:
                paused_credit[0] -= 1
                sim.fault("delivered_after_pause")
                if st["body"] is None and results:
                    sim.probe("piece_buffered_by_response_while_paused")
            sim.event("deliver", n)
            with sim.guard("raised", "dataReceived"):
                proto.dataReceived(piece)
        elif op == "attach":
            attach()
        elif op == "resume":
            sim.event("resume")
            sim.probe("body_resumed")
            with sim.guard("raised", "resumeProducing"):
                st["body"].transport.resumeProducing()
            if not t.reading:
                # the proxy no longer forwards (response finished / parser detached): the harness owns the real transport
                t.resumeProducing()
        elif op == "abort":
            do_abort("scheduler")
        elif op == "tx_write":
            sim.event("tx-write")
            with sim.guard("raised", "request-body-write"):
                tx.write(sim.draw_int(1, 6, "tx_piece"))
            t.take()
        elif op == "tx_finish":
            sim.event("tx-finish")
            if not results:
                sim.probe("request_body_finished_after_response_bytes" if pos else "request_body_finished_before_response")
            with sim.guard("raised", "request-body-finish"):
                tx.finish()
            t.take()
        else:
            lose()
        check()
        # persistent connection became quiescent again: this round is over without a loss
        if (lost[0] is None and pos >= total and k >= total and framing != "close" and not resp_close
                and proto.state == "QUIESCENT" and not t.disconnecting and (st["body"] is not None or st["attach"] == "after_loss")):
            break
        if flags.get("second_issued") and round_no == 0 and lost[0] is None:
            break   # the next request was issued re-entrantly from this response's body connectionLost: round over
    if st["body"] is None and results and not isinstance(results[0], Failure):
        attach()                      # DEFERRED_CLOSE path: body handed over after everything happened
        sim.probe("attach_after_end")
        check()
        if ab["done"] and lost[0] is None:
            lose()                    # the consumer attached last of all aborted the (idle) connection: the transport reports the close
            check()
    if lost[0] is None and not (flags.get("second_issued") and round_no == 0):
        # only reachable on a quiescent persistent connection
        sim.check("quiescent-after-complete-response", proto.state == "QUIESCENT" and pos >= total, "state",
                  "round ended without loss in state %s pos=%d/%d" % (proto.state, pos, total))
        # a connection handed back for reuse must be readable again, else the next response can never arrive
        sim.check("quiescent-transport-resumed", t.reading, "state", "connection is QUIESCENT but its transport was left paused")
    flags["on_quiescent"] = None
    sim.check("request-fired-exactly-once", len(results) == 1, "deferred" + suffix().replace("+abort", ""), lambda: "results at end of round: %s" % show(results))
    if spec["interims"]:
        sim.probe("interim_1xx")
    sim.state((method, framing, use_h11, bool(spec["interims"]), persistent, st["attach"],
               "pre-head" if (lost[0] is not None and pos < seg.head_end) else "in-body" if (lost[0] is not None and pos < seg.end) else "complete"))
    if framing in ("chunked", "close") or spec["interims"]:
        flags["rich"] = 1
    return lost[0] is None


def run(sim):
    # process-global mutable state (header-name cache) must not leak between runs in a warm worker
    try:
        from twisted.web import http_headers as _hh
        _hh._nameEncoder._canonicalHeaderCache.clear()
    except AttributeError:
        pass
    flags = {}

    def quiescent_callback(p):
        # what a connection pool passes in; the round in progress decides what it does
        hook = flags.get("on_quiescent")
        if hook is not None:
            hook()

    proto = _newclient.HTTP11ClientProtocol(quiescent_callback)
    t = net.SimTransport(sim, "client")
    t.protocol = proto
    proto.makeConnection(t)
    rounds = 0
    alive = True
    # the second request may be issued re-entrantly, from inside the first response's body connectionLost
    # (what Agent + a persistent pool do when readBody's callback starts the next request)
    reentrant = sim.draw_bool(0.3, "reentrant_second")
    holder = {}

    flags["malformed_while_transmitting"] = sim.draw_bool(MALFORMED_WHILE_TRANSMITTING_P, "malformed_while_transmitting")
    flags["request_from_quiescent_callback"] = sim.draw_bool(REQUEST_FROM_QUIESCENT_CALLBACK_P, "request_from_quiescent_callback")

    def issue_second(origin="body_connectionLost"):
        if proto.state == "QUIESCENT" and "pre" not in holder and not t.disconnecting:
            sim.probe("second_request_from_" + origin)
            sim.event("reentrant-second-request", origin)
            flags["second_issued"] = True
            holder["pre"] = issue(sim, proto, t, 1, origin)

    flags["issue_second"] = issue_second
    while alive and rounds < 2:
        if rounds == 0:
            alive = one_round(sim, proto, t, 0, flags, on_body_lost=issue_second if reentrant else None)
        elif "pre" in holder:
            alive = one_round(sim, proto, t, 1, flags, pre=holder["pre"])
        else:
            alive = one_round(sim, proto, t, rounds, flags)
        rounds += 1
        if alive and "pre" not in holder and not sim.draw_bool(0.7, "second_request"):
            break
    if alive:
        sim.event("final-lose")
        with sim.guard("raised", "connectionLost"):
            t.lose(Failure(error.ConnectionDone()))
    if rounds > 1:
        sim.probe("second_request_on_connection")
    sim.config = {"rounds": rounds}
    sim.check("closed-state", proto.state == "CONNECTION_LOST", "state", "final state %s" % proto.state)
    sim.nontrivial = bool((flags.get("cut_inside") or flags.get("rich")) and sim.faults.get("segmentation", 0) > 0)


MUTANTS = [
    "_newclient.py allHeadersReceived: 1xx treated as the final response -> caught (no-early-result / response-code)",
    "http.py _ChunkedTransferDecoder.noMoreData: truncated chunked body accepted as done -> caught (body-loss-reason:chunked:a)",
    "http.py _IdentityTransferDecoder.noMoreData: short Content-Length body accepted as done -> caught (body-loss-reason:cl:a)",
    "_newclient.py HTTPClientParser.connectionLost: PotentialDataLoss turned into ResponseDone -> caught (body-loss-reason:close:PotentialDataLoss)",
    "_newclient.py _deliverBody_DEFERRED_CLOSE: protocol.connectionLost not called -> caught (body-connectionLost-once)",
    "_newclient.py allHeadersReceived: HEAD not treated as body-less -> caught (response-length:none)",
    "_newclient.py NO_BODY_CODES without 304 -> caught (response-length:none)",
    "_newclient.py _connectionLost_WAITING: parser not disconnected -> caught (failure-when-lost-before-headers, body-connectionLost-once)",
    "_newclient.py _deliverBody_INITIAL: buffered body data dropped -> caught (body-bytes-equal)",
    "_newclient.py HTTPClientParser.connectionLost: _responseDeferred.errback skipped -> caught (failure-when-lost-before-headers)",
    "_newclient.py HTTPClientParser.connectionLost: 'elif state != DONE' -> 'if' (second firing) -> caught (raised:connectionLost:AttributeError)",
    "_newclient.py _bodyDataFinished_CONNECTED: connectionLost delivered twice -> caught (body-connectionLost-once)",
    "_newclient.py _finishResponse_WAITING: transport not resumed before going QUIESCENT -> caught (quiescent-transport-resumed) [clause added for it]",
    "http.py _dataReceived_TRAILER: trailer lines delivered as body -> caught (body-bytes-equal:chunked)",
    "_newclient.py NO_BODY_CODES gains 205 (seed C23-r5b) -> caught (response-length:cl/chunked/close) [status-code family added for it]",
    "_newclient.py allHeadersReceived: only 100/102/103 treated as interim -> caught (no-early-result, response-code)",
    "_newclient.py _connectionLost_ABORTING: parser not disconnected -> caught (failure-when-lost-before-headers, body-connectionLost-once:*+abort)",
    "_newclient.py no _finishResponse handler in state ABORTING (TREE AS FIRST EXAMINED, genuine, REPAIRED in /repo 864f11a) -> body-connectionLost-once:close+abort",
    "_newclient.py abort() in state TRANSMITTING leaves the request Deferred unchained (TREE AS FIRST EXAMINED, genuine, REPAIRED in /repo ed25b2f) -> request-fires-after-abort-in-transit:before-head",
    "_newclient.py _connectionLost_TRANSMITTING: errback skipped -> caught (request-fires-when-lost:request-body-in-transit)",
    "_newclient.py _finishResponse_TRANSMITTING: chainDeferred dropped -> caught (response-when-complete:request-body-in-transit)",
    "_newclient.py cbRequestWritten: no chaining when the response Deferred has already fired -> caught (response-when-headers-complete)",
    "_newclient.py _finishResponse_WAITING: parser not disconnected when the quiescent callback raised (seed C23-r6a; also with abortConnection) -> caught "
    "(body-connectionLost-once:cl/chunked) [quiescent-callback family added for it]",
    "_newclient.py _deliverBody_INITIAL: CONNECTED before the buffered pieces are handed over (seed C23-r6b) -> caught (no-data-after-lost) "
    "[deliveries-after-pause + hang-up-during-hand-over families added for it]",
    "_newclient.py _deliverBody_INITIAL: hand-over stops once the end of the body was reported beneath it -> caught (body-bytes-equal)",
    "_newclient.py _bodyDataReceived_INITIAL: only the last piece kept -> caught (body-bytes-equal:cl/close too, since pieces arrive after the pause)",
    "_newclient.py statusReceived: non-numeric status code taken as 200 -> caught (no-response-without-header-block:malformed-status-line)",
    "_abnf.py _hexint: sign / 0x prefix accepted in a chunk size -> caught (body-bytes-equal:chunked)",
    "_newclient.py HTTPClientParser.connectionLost: no errback when the reason is a ParseError -> caught (failure-when-lost-before-headers:deferred+malformed)",
    "_newclient.py HTTP11ClientProtocol.dataReceived: parse error only closes the transport (parser disconnected by the loss) -> survived: equivalent "
    "at the level of the statement (no verdict on the moment the failure is reported)",
    "_newclient.py malformed response while TRANSMITTING drops _finishedRequest (TREE AS FIRST EXAMINED, genuine, REPAIRED in /repo f7168f5) -> raised:connectionLost+malformed-while-transmitting:AttributeError, "
    "failure-when-lost-before-headers:deferred+malformed-while-transmitting, response-when-headers-complete:chunked+malformed-while-transmitting, "
    "request-fires-when-lost:request-body-in-transit+malformed-while-transmitting",
    "_newclient.py request() from the quiescent callback gets its parser disconnected instead of the finished one (TREE AS FIRST EXAMINED, genuine, REPAIRED in /repo 177d173) -> "
    "body-connectionLost-once:cl/chunked+request-from-quiescent-callback, no-early-result:deferred+request-from-quiescent-callback",
    "http.py _dataReceived_BODY: '>=' -> '>' -> survived: equivalent (only adds an empty dataCallback(b''))",
    "_newclient.py isConnectionControlHeader: HEAD Content-Length not kept as entity header -> survived: outside the statement (header classification only)",
]
