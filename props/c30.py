"""C30 — AMP wire format and argument types round-trip.

Engine E3 (net).  Two real BinaryBoxProtocol instances joined by a net.Link.

* "wire" runs: the sender is handed a tape-chosen sequence of boxes: valid ones
  (1..255-byte keys, 0..65535-byte values, boundary sizes favoured, occasionally
  the empty box or many keys), boxes that cannot be represented (empty / 256+
  byte / str / int key; 65536+ byte / str / int / None / list value), boxes
  with a BUFFER value (not a bytes object, but exposing bytes through the buffer
  protocol: bytearray, memoryview of bytes, array('B') - and, knob
  WIDE_BUFFER_WEIGHT, arrays / memoryviews of 2/4/8-byte items, whose len()
  counts items, incl. item counts that fit 16 bits while the bytes do not), and
  boxes written by the independent reference serializer (models/ampwire.py) with
  the pairs in tape-chosen order.  Everything the sender wrote is then delivered
  to the receiver in tape-chosen pieces (net.cut with the length prefixes as
  preferred cut points).
* "args" runs: a schema of 1..4 Argument objects drawn from Integer, String,
  Unicode, Float, Boolean, Decimal, DateTime, Path, ListOf (nested), AmpList
  (nested, optional members) is built once - argument objects live on Command
  classes and serve every decode of the process - and used for 1..5 rounds of
  fresh values, each round one box (toBox/fromBox, or makeArguments/
  parseArguments of a Command class made from the schema), sent the same way,
  in a share of the rounds over a second connection.  DateTime values carry
  amp.utc, a fixed-offset timezone of their own, or one of the run's 1..3 ZONE
  objects: tzinfo objects shared by every value lying in that zone, whose UTC
  offset depends on the datetime asked about (a yearly daylight-saving rule,
  northern or southern, with values to the minute on either side of a switch;
  local mean time - an offset with seconds - before a year; or plainly fixed),
  so that one argument object serializes, one after the other, values that
  share a tzinfo object and differ in offset.  Text values (Unicode, and the
  Unicode elements/members of lists) are drawn per character from plain
  characters, from the code points that codecs / normalisers / line splitters /
  strip() / case mapping single out (U+FEFF and U+FFFE, U+FFFD, plane-final
  noncharacters, the edges of the UTF-8 length classes and of the surrogate gap,
  C1 controls, U+2028/2029, no-break and zero-width spaces, a bidi override, ...)
  and from all Unicode scalar values - in first, last and inner position; String
  values likewise start/end, in a share, with byte sequences that have a meaning
  to codecs (the UTF-8/16/32 byte order marks, overlong NUL, blanks, CR LF);
  Path values are text-mode or (a share) bytes-mode FilePaths.  In a share of the rounds
  some of the values on the wire are MALFORMED: a well-formed encoding with its
  tail cut, cut anywhere, a lone byte, bytes appended, one bit flipped, emptied,
  garbage, the key missing, or - for ListOf/AmpList - the same damage inside one
  element/member under intact outer framing.  What a malformed value decodes to
  (or which exception refuses it) is not judged.

Oracle: received boxes == valid boxes sent, in order (a prefix of them after
every delivery); an unrepresentable box raises from sendBox and writes nothing;
a buffer value is either refused (nothing written) or reaches the wire as one
well-formed box carrying exactly the buffer's bytes;
the sender's bytes parse, with the reference parser, to exactly the valid boxes;
every well-formed argument value - whatever the same argument object was handed
before, in the same box or in an earlier one - decodes to the encoded value
(NaN ~ NaN; DateTime exact for whole-minute offsets, local fields equal and
offset within a minute otherwise; a FilePath up to its bytes/text mode, which
the wire does not carry).
"""
import array
import datetime
import decimal
import math
import struct
import sys

from twisted.protocols import amp
from twisted.python import filepath

from detsim import net
from models import ampwire

ID = "C30"
ENGINE = "net"
LEVEL = "exploration"
TECHNIQUE = ("deterministic simulation: seeded box/argument grammar sent by one real BinaryBoxProtocol to another over a "
             "simulated link with seeded segmentation, vs a reference wire model and value equality")
QUICK_RUNS = 45000
TWIN_P = 0.08   # this share of the runs drives two independent instances of the scenario one after the other (detsim.runner._run_scenario)
BATCH = 100
# Genuine defect of the tree as first examined (empty key accepted by AmpBox.serialize), REPAIRED in /repo 58434a7: weight of that
# item among the unrepresentable kinds (the others have weight 8 each; 0 only for dev-time comparison).
EMPTY_KEY_WEIGHT = 8
COMPONENTS = {
    "real": ["twisted.protocols.amp.AmpBox.serialize", "twisted.protocols.amp.BinaryBoxProtocol (sendBox, proto_init/key/value)",
             "twisted.protocols.basic.Int16StringReceiver/StatefulStringProtocol", "amp.Argument subclasses toBox/fromBox"],
    "stub": ["TCP transport and delivery segmentation (detsim.net.Link / cut)", "box receiver (recorder)"],
}
RULE = ("run = 1..5 boxes (valid / unrepresentable / buffer-valued / reference-serialized) or 1..5 boxes of the same 1..4 typed argument "
        "objects (fresh values per box; in a share of the boxes some values malformed/truncated, not judged themselves), sent "
        "through a real BinaryBoxProtocol and delivered to another in tape-chosen pieces; DateTime values share the run's 1..3 "
        "zone tzinfo objects whose offset depends on the datetime (daylight-saving rule / local mean time) besides fixed offsets; "
        "text values mix plain characters with codec-/normaliser-significant code points (byte order mark, noncharacters, UTF-8 "
        "length-class edges, separators ...) and arbitrary scalar values at either end and inside; non-trivial = the wire was cut at "
        "least once and at least one box arrived")
ASSUMPTIONS = [
    "integers are kept below 2**8000 (CPython's int<->str digit limit is an interpreter setting, not AMP's)",
    "Unicode values contain no lone surrogates (every other Unicode scalar value may occur anywhere in a text); DateTime years 2..9998",
    "Path values are absolute FilePaths, text-mode or bytes-mode; the mode is not carried by the wire (a bytes-mode path decodes "
    "to the text-mode FilePath of the same name), so paths of different modes are compared by their text form; bytes-mode paths "
    "are only drawn where the file-system encoding is UTF-8",
    "a value that is not a bytes object but exposes bytes through the buffer protocol may be refused or sent; only 'sent but not "
    "as one well-formed box of exactly those bytes' is a violation (the statement: refused INSTEAD OF corrupting the stream)",
    "float equality is == or both NaN (NaN payload bits are not part of the textual wire form)",
    "zone tzinfo objects give every wall-clock time exactly one offset (a pure function of the datetime's fields, fold ignored; "
    "total offset strictly within a day), so equality with the decoded fixed-offset value is ordinary aware-datetime equality",
    "a malformed argument value may decode to anything or be refused with any Exception; the statement only covers the "
    "well-formed values decoded by the same argument objects before and after it",
]


class Rec:
    def __init__(self):
        self.boxes = []
        self.stopped = []

    def startReceivingBoxes(self, sender):
        self.sender = sender

    def ampBoxReceived(self, box):
        self.boxes.append(dict(box))

    def stopReceivingBoxes(self, reason):
        self.stopped.append(reason)


# ------------------------------------------------------------------ wire half

def blob(sim, n, small_alpha=None):
    if n <= 12 and small_alpha is not None:
        return sim.draw_bytes(n, small_alpha)
    return sim.draw_blob(n)


def gen_key(sim):
    n = sim.draw_weighted([(sim.draw_int(1, 12, "klen"), 6), (1, 2), (255, 2), (254, 1), (128, 1)], "klenkind")
    return blob(sim, n, b"ab_\x00\xff")


def gen_value(sim, big_ok):
    n = sim.draw_weighted([(sim.draw_int(0, 40, "vlen"), 8), (0, 2), (1, 1), (255, 1), (256, 1),
                           (sim.draw_int(0, 3000, "vlen2"), 2), (65535, 1 if big_ok else 0), (65534, 1 if big_ok else 0)], "vlenkind")
    return blob(sim, n, b"xy\x00\xff")


def gen_valid_box(sim, big_ok):
    nk = sim.draw_weighted([(sim.draw_int(1, 4, "nkeys"), 10), (0, 1), (30, 1)], "nkeyskind")
    box = {}
    for _ in range(nk):
        k = gen_key(sim)
        if k not in box:
            box[k] = gen_value(sim, big_ok and len(box) == 0)
    return box


BAD_KINDS = ["key-256", "key-long", "value-65536", "value-long", "str-key", "str-value", "int-value", "none-value",
             "int-key", "list-value"]


def gen_bad_box(sim):
    kind = sim.draw_weighted([(k, 8) for k in BAD_KINDS] + [("empty-key", EMPTY_KEY_WEIGHT)], "badkind")
    box = amp.AmpBox(gen_valid_box(sim, False))
    if kind == "empty-key":
        box[b""] = gen_value(sim, False)
    elif kind == "key-256":
        box[sim.draw_blob(256)] = b"v"
    elif kind == "key-long":
        box[sim.draw_blob(sim.draw_int(257, 70000, "klen"))] = b"v"
    elif kind == "value-65536":
        box[b"big"] = sim.draw_blob(65536)
    elif kind == "value-long":
        box[b"big"] = sim.draw_blob(sim.draw_int(65537, 140000, "vlen"))
    elif kind == "str-key":
        box["text"] = b"v"
    elif kind == "str-value":
        box[b"k"] = "text"
    elif kind == "int-value":
        box[b"k"] = 7
    elif kind == "none-value":
        box[b"k"] = None
    elif kind == "int-key":
        box[7] = b"v"
    else:
        box[b"k"] = [b"v"]
    return kind, box


# Values that are not bytes objects but expose bytes through the buffer protocol.  With one-byte items (bytearray, a
# memoryview of bytes, array('B')) len() is the byte count; with wider items (array('H'/'I'/'d'), a memoryview of one)
# len() counts ITEMS.  The statement wants a non-bytes value refused "instead of corrupting the stream"; whether the
# harmless one-byte-item ones are refused is not judged - but whatever sendBox accepts must reach the wire as ONE
# well-formed box carrying exactly the buffer's bytes.
BYTE_BUFFER_KINDS = ["bytearray", "byte-view", "byte-array"]
WIDE_BUFFER_KINDS = ["wide-array", "wide-view"]
# Weight of each wide-item kind (the one-byte-item kinds have weight 4 each).  GENUINE DEFECT of the tree as first examined,
# REPAIRED in /repo fe06844 (AmpBox.serialize wrote len(value) - the ITEM count - as the length prefix of a wide-item buffer and
# then all its bytes: signature C30:buffer-value-corrupts-stream:wide-array / wide-view).  The precondition is in the runs with the
# same weight as the one-byte-item kinds (4); 0 keeps it out and is only for dev-time comparison.
WIDE_BUFFER_WEIGHT = 4


def gen_buffer_value(sim):
    """-> (kind, value object, the bytes it exposes)."""
    kind = sim.draw_weighted([(k, 4) for k in BYTE_BUFFER_KINDS] + [(k, WIDE_BUFFER_WEIGHT) for k in WIDE_BUFFER_KINDS], "bufkind")
    if kind in BYTE_BUFFER_KINDS:
        data = gen_value(sim, False)
        if sim.draw_bool(0.12, "buffer-overlong"):
            # more bytes than a box value holds: this one has to be refused
            data = sim.draw_blob(sim.draw_choice([65536, sim.draw_int(65537, 70000, "buflen")], "buflenkind"))
            sim.probe("buffer_value_overlong")
        if kind == "bytearray":
            return kind, bytearray(data), data
        if kind == "byte-view":
            return kind, memoryview(data), data
        return kind, array.array("B", data), data
    code = sim.draw_choice("HId", "typecode")
    # item count: small; or few enough items for a 16-bit count while the bytes outgrow a box value
    n = sim.draw_weighted([(sim.draw_int(1, 20, "nitems"), 6), (0, 1), (sim.draw_int(33000, 65535, "nitems-long"), 1)], "nitemskind")
    arr = array.array(code)
    arr.frombytes(sim.draw_blob(n * arr.itemsize))
    if n > 20:
        sim.probe("buffer_value_items_fit_bytes_do_not")
    return kind, (arr if kind == "wide-array" else memoryview(arr)), arr.tobytes()


def deliver_all(sim, link, recv, expected, ctx, cap=5000):
    """Move everything A wrote onto the wire and deliver it to B in pieces."""
    if link.a.out:
        link.do("xmit", "A")
    wire = bytes(link.flight["B"])
    try:
        _, offsets, _ = ampwire.parse(wire)
    except ValueError:
        offsets = []
    bounds = sorted(set(offsets) | set(o + 2 for o in offsets))
    pieces = net.cut(sim, wire, None, bounds)
    sim.event("wire", wire, "pieces", len(pieces))
    with sim.guard("receiver-raised"):
        for p in pieces:
            sim.step(cap)
            link.do("deliver", "B", len(p))
            got = recv.boxes
            sim.check("received-prefix", got == expected[:len(got)], "wire",
                      lambda: "after a delivery the receiver has %s, sent %s; %s" % (brief(got), brief(expected), ctx()))
    return pieces


def brief(boxes):
    def b(x):
        if isinstance(x, bytes) and len(x) > 24:
            return "<%d bytes %s..>" % (len(x), x[:6].hex())
        return repr(x)
    return "[" + ", ".join("{" + ", ".join("%s: %s" % (b(k), b(v)) for k, v in sorted(bx.items(), key=lambda kv: repr(kv[0]))) + "}"
                           for bx in boxes[:6]) + ("]" if len(boxes) <= 6 else ", ...%d]" % len(boxes))


def run_wire(sim, link, a, b, rb):
    expected = []
    nitems = sim.draw_int(1, 5, "nitems")
    big_budget = [1]
    log = []
    for _ in range(nitems):
        what = sim.draw_weighted([("valid", 10), ("bad", 3), ("reference", 3), ("buffer", 2)], "item")
        if what == "valid":
            d = gen_valid_box(sim, big_budget[0] > 0)
            if any(len(v) > 60000 for v in d.values()):
                big_budget[0] -= 1
            sim.event("send", brief([d]))
            log.append(("valid", brief([d])))
            with sim.guard("valid-box-refused"):
                a.sendBox(amp.AmpBox(d))
            expected.append(d)
        elif what == "reference":
            d = gen_valid_box(sim, False)
            pairs = sim.draw_perm(sorted(d.items()))
            sim.event("reference-box", brief([d]))
            log.append(("reference", brief([d])))
            link.a.write(ampwire.serialize(pairs))
            expected.append(d)
        elif what == "buffer":
            d = gen_valid_box(sim, False)
            key = gen_key(sim)
            kind, value, payload = gen_buffer_value(sim)
            d[key] = payload
            box = amp.AmpBox(d)
            box[key] = value
            before = len(link.a.written)
            sim.event("send-buffer-value", kind, len(payload), brief([d]))
            log.append(("buffer", kind, len(value), brief([d])))
            sim.probe("buffer_value_" + kind)
            try:
                a.sendBox(box)
                raised = None
            except Exception as e:  # a refusal is always acceptable
                raised = e
            new = bytes(link.a.written[before:])
            if raised is not None:
                sim.probe("buffer_value_refused")
                sim.check("refusal-wrote-bytes", not new, kind, lambda: "sendBox raised %r but wrote %d bytes" % (raised, len(new)))
                continue
            sim.probe("buffer_value_accepted")
            try:
                pboxes, _, consumed = ampwire.parse(new)
            except ValueError:
                pboxes, consumed = None, 0
            sim.check("buffer-value-corrupts-stream", len(payload) <= ampwire.MAX_VALUE and pboxes == [d] and consumed == len(new), kind,
                      lambda: "sendBox accepted a %s value of %d items / %d bytes under key %r and wrote %r.. (%d bytes), which is not "
                              "the one box %s" % (kind, len(value), len(payload), key, new[:40], len(new), brief([d])))
            expected.append(d)
        else:
            kind, box = gen_bad_box(sim)
            before = len(link.a.written)
            sim.event("send-unrepresentable", kind)
            log.append(("bad", kind))
            sim.probe("unrepresentable_" + kind)
            try:
                a.sendBox(box)
                raised = None
            except Exception as e:  # any refusal will do
                raised = e
            sim.check("unrepresentable-accepted", raised is not None, kind,
                      lambda: "sendBox accepted a box with %s and wrote %r" % (kind, bytes(link.a.written[before:])[:40]))
            sim.check("refusal-wrote-bytes", len(link.a.written) == before, kind,
                      lambda: "sendBox raised %r but wrote %d bytes" % (raised, len(link.a.written) - before))
    ctx = lambda: "items %r" % (log,)
    written = bytes(link.a.written)
    pboxes, _, consumed = ampwire.parse(written)
    sim.check("wire-format-serialize", pboxes == expected and consumed == len(written), "wire",
              lambda: "sender bytes parse (reference) to %s, sent %s; %s" % (brief(pboxes), brief(expected), ctx()))
    pieces = deliver_all(sim, link, rb, expected, ctx)
    sim.check("boxes-equal", rb.boxes == expected, "wire", lambda: "received %s sent %s; %s" % (brief(rb.boxes), brief(expected), ctx()))
    sim.check("receiver-closed", not link.b.disconnecting and not rb.stopped, "wire", ctx)
    sim.state(("wire", len(expected), min(len(pieces), 8)))
    sim.nontrivial = len(pieces) > 1 and len(expected) > 0


# ------------------------------------------------------------------ argument half

UNI = ["a", "Z", "0", " ", "\x00", "é", "€", "\U0001f600", "́", "퟿", "", "\n", "\\"]


# Code points that text-handling layers (codecs, normalisers, line splitters, strip(), case mapping, terminals) single
# out: the byte order mark / zero width no-break space and its byte-swapped twin, the replacement character, the last
# code points of the planes, the edges of the 1/2/3/4-byte UTF-8 ranges and of the surrogate gap, C1 controls and the
# Unicode line/paragraph separators, no-break / zero-width spaces, a bidi override, private use, characters whose
# case mapping changes their length.  To a text argument every one of them is an ordinary character, wherever it stands.
UNI_SPECIAL = ["\ufeff", "\ufffe", "\ufffd", "\uffff", "\U0010ffff", "\x7f", "\x80", "\u07ff", "\u0800", "\ue000",
               "\U00010000", "\x85", "\u2028", "\u2029", "\xa0", "\u200b", "\u202e", "\r", "\t", "\x0b", "\x1a",
               "\u0130", "\xdf", "\ufb01", "\u3000"]


def gen_char(sim):
    kind = sim.draw_weighted([("plain", 12), ("special", 5), ("any", 1)], "chkind")
    if kind == "plain":
        return sim.draw_choice(UNI, "ch")
    if kind == "special":
        return sim.draw_choice(UNI_SPECIAL, "chspecial")
    # any Unicode scalar value (the surrogate gap D800..DFFF is skipped: ASSUMPTIONS)
    cp = sim.draw_int(0, 0x10FFFF - 0x800, "codepoint")
    sim.probe("text_any_code_point")
    return chr(cp if cp < 0xD800 else cp + 0x800)


def gen_text(sim, maxlen=8):
    text = "".join(gen_char(sim) for _ in range(sim.draw_int(0, maxlen, "tlen")))
    if text:
        if text[0] in UNI_SPECIAL:
            sim.probe("text_special_char_first")
        if text[-1] in UNI_SPECIAL:
            sim.probe("text_special_char_last")
        if any(c in UNI_SPECIAL for c in text[1:-1]):
            sim.probe("text_special_char_inside")
    return text


# byte sequences that codecs and text layers give a meaning to (UTF-8 / UTF-16 / UTF-32 byte order marks, an overlong
# NUL, a lone continuation byte, blanks, line ends); to a String argument they are payload like any other
BYTES_SPECIAL = [b"\xef\xbb\xbf", b"\xff\xfe", b"\xfe\xff", b"\x00\x00\xfe\xff", b"\xc0\x80", b"\x80", b" ", b"\t", b"\r\n", b"\x1a"]


def gen_bytes(sim):
    body = sim.draw_bytes(sim.draw_int(0, 12, "slen"), b"ab\x00\xff\r\n")
    where = sim.draw_weighted([("none", 8), ("first", 2), ("last", 1), ("both", 1)], "bspecial")
    if where in ("first", "both"):
        body = sim.draw_choice(BYTES_SPECIAL, "bfirst") + body
    if where in ("last", "both"):
        body = body + sim.draw_choice(BYTES_SPECIAL, "blast")
    if where != "none":
        sim.probe("bytes_special_sequence_at_an_end")
    return body


def gen_int(sim):
    k = sim.draw_weighted([("small", 4), ("edge", 4), ("huge", 2)], "intkind")
    if k == "small":
        return sim.draw_int(-1000, 1000, "int")
    if k == "edge":
        return sim.draw_choice([0, -1, 1, 2 ** 31 - 1, -2 ** 31, 2 ** 63, -2 ** 63 - 1, 2 ** 64, 10 ** 18], "edge")
    v = int.from_bytes(sim.draw_blob(sim.draw_int(9, 1000, "nbytes")), "big")
    return -v if sim.draw_bool(0.5, "neg") else v


def gen_float(sim):
    k = sim.draw_weighted([("special", 5), ("bits", 5)], "floatkind")
    if k == "special":
        return sim.draw_choice([0.0, -0.0, float("nan"), float("inf"), float("-inf"), 1e308, -1e308, 5e-324, 0.1, 1.0 / 3,
                                2.0 ** 53, 1e22, 1e-7, 123456789.123456789], "special")
    return struct.unpack("!d", sim.draw_blob(8))[0]


def gen_decimal(sim):
    k = sim.draw_weighted([("special", 4), ("digits", 6)], "deckind")
    if k == "special":
        return decimal.Decimal(sim.draw_choice(["0", "-0", "1.50", "1E+2", "1E-1000", "Infinity", "-Infinity", "NaN", "-NaN",
                                                "sNaN", "-sNaN", "NaN123", "0E-10", "9.999999999999999999999999999999E+6144"], "special"))
    digits = "".join(sim.draw_choice("0123456789", "d") for _ in range(sim.draw_int(1, 30, "ndigits")))
    exp = sim.draw_int(-50, 50, "exp")
    return decimal.Decimal(("-" if sim.draw_bool(0.5, "neg") else "") + digits + "E%d" % exp)


class RuleZone(datetime.tzinfo):
    """A tzinfo whose UTC offset depends on the datetime it is asked about, as every real-world zone's does: either a
    yearly daylight-saving rule on the local wall clock (between `start` and `end`, (month, day, hour, minute) keys, the
    offset is std + delta; start > end = southern hemisphere), or a zone that kept local mean time (an offset with
    seconds) before the year `cut`.  The offset is a pure function of the wall-clock fields (fold is ignored), so every
    value has exactly one offset.  One object is shared by all the values of a run that lie in the zone."""

    def __init__(self, label, std, delta=0, start=None, end=None, cut=None, lmt=None):
        self.label = label
        self.std = datetime.timedelta(minutes=std)
        self.delta = datetime.timedelta(minutes=delta)
        self.start, self.end, self.cut = start, end, cut
        self.lmt = None if lmt is None else datetime.timedelta(seconds=lmt)

    def _shift(self, dt):
        if dt is None:
            return None
        if self.cut is not None:
            return "lmt" if dt.year < self.cut else None
        key = (dt.month, dt.day, dt.hour, dt.minute)
        if self.start < self.end:
            inside = self.start <= key < self.end
        else:
            inside = not (self.end <= key < self.start)
        return "dst" if inside else None

    def utcoffset(self, dt):
        sh = self._shift(dt)
        if sh == "lmt":
            return self.lmt
        return self.std + self.delta if sh == "dst" else self.std

    def dst(self, dt):
        return self.delta if self._shift(dt) == "dst" else datetime.timedelta(0)

    def tzname(self, dt):
        return self.label

    def __repr__(self):
        return "RuleZone(%s)" % self.label


STD_OFFSETS = [0, 60, -300, 330, 345, 570, -210, 765, -720, 840]


class ZonePool:
    """The zone tzinfo objects of one run (drawn with the run's first DateTime value) and the run's weight of zone values."""

    def __init__(self):
        self.weight = None
        self.zones = []
        self.last = {}      # zone label -> offset of the value drawn last in that zone

    def note(self, sim, value):
        label, off = value.tzinfo.tzname(None), value.utcoffset()
        if self.last.get(label, off) != off:
            sim.probe("datetime_same_tzinfo_other_offset")
        self.last[label] = off
        return value


def gen_zones(sim):
    """The tzinfo objects of one run: 1..3 objects, each shared by every value that lies in that zone - applications
    keep one tzinfo object per zone.  Kinds: a daylight-saving rule, local mean time before a year, a plain fixed offset."""
    zones = []
    for i in range(sim.draw_int(1, 3, "nzones")):
        kind = sim.draw_weighted([("dst", 6), ("lmt", 2), ("fixed", 2)], "zonekind")
        std = sim.draw_choice(STD_OFFSETS + [sim.draw_int(-720, 840, "stdmin")], "std")
        if kind == "fixed":
            z = datetime.timezone(datetime.timedelta(minutes=std))
            desc = ("fixed", std)
        elif kind == "lmt":
            cut = sim.draw_choice([1900, 1970, 2000, 1000], "lmtcut")
            lmt = std * 60 + sim.draw_choice([1, 28, 30, 59, -1, -32, -59, 1172], "lmtsec")
            z = RuleZone("lmt%d" % i, std, cut=cut, lmt=lmt)
            desc = ("lmt", std, cut, lmt)
        else:
            delta = sim.draw_choice([60, 30, 120, -60, 20], "dstdelta")
            # switches stay inside March..November so that no value near one leaves its year
            spring = (sim.draw_int(3, 5, "m1"), sim.draw_int(1, 28, "d1"), sim.draw_choice([2, 1, 0, 3, 23], "h1"),
                      sim.draw_choice([0, 0, 30], "mi1"))
            autumn = (sim.draw_int(9, 11, "m2"), sim.draw_int(1, 28, "d2"), sim.draw_choice([3, 2, 0, 1, 23], "h2"),
                      sim.draw_choice([0, 0, 30], "mi2"))
            south = sim.draw_bool(0.3, "southern")
            start, end = (autumn, spring) if south else (spring, autumn)
            z = RuleZone("dst%d" % i, std, delta, start, end)
            desc = ("dst", std, delta, start, end)
        sim.event("zone", i, *desc)
        zones.append((kind, z))
    return zones


def gen_datetime(sim, pool=None):
    year = sim.draw_choice([2024, 2, 9998, 1970, 1999, 999, 1900], "year")
    month = sim.draw_int(1, 12, "month")
    day = sim.draw_int(1, 28, "day")
    micro = sim.draw_choice([0, 1, 999999, 500000, sim.draw_int(0, 999999, "us")], "micro")
    zone_w = 0
    if pool is not None:
        if pool.weight is None:
            pool.weight = sim.draw_choice([6, 0, 2, 40], "zoneweight")
            pool.zones = gen_zones(sim)
        zone_w = pool.weight
    off = sim.draw_weighted([("utc", 3), ("minutes", 6), ("seconds", 1), ("zone", zone_w)], "tzkind")
    h, m, s = sim.draw_int(0, 23, "h"), sim.draw_int(0, 59, "m"), sim.draw_int(0, 59, "s")
    if off == "utc":
        tz = amp.utc
    elif off == "minutes":
        tz = datetime.timezone(datetime.timedelta(minutes=sim.draw_choice(
            [0, 1, -1, 60, -60, 330, -330, 345, 1439, -1439, sim.draw_int(-1439, 1439, "offmin")], "off")))
    elif off == "seconds":
        tz = datetime.timezone(datetime.timedelta(seconds=sim.draw_choice([30, -30, 19830, -19830, 59, -59, 86399, -86310], "offsec")))
    else:
        kind, tz = sim.draw_choice(pool.zones, "zone")
        sim.probe("datetime_zone_" + kind)
        if kind == "dst" and sim.draw_bool(0.4, "near-switch"):
            # a wall-clock time close to one of the zone's two switches (either side, to the minute)
            mo, d, hh, mi = sim.draw_choice([tz.start, tz.end], "switch")
            near = datetime.datetime(year, mo, d, hh, mi, s, micro) + datetime.timedelta(
                minutes=sim.draw_choice([0, -1, 1, -60, 59, 60, -61, sim.draw_int(-180, 180, "nearmin")], "near"))
            sim.probe("datetime_near_switch")
            return pool.note(sim, near.replace(tzinfo=tz))
        if kind == "lmt" and sim.draw_bool(0.4, "near-cut"):
            year = tz.cut - sim.draw_int(0, 1, "before")
        return pool.note(sim, datetime.datetime(year, month, day, h, m, s, micro, tz))
    return datetime.datetime(year, month, day, h, m, s, micro, tz)


PATH_SEGS = ["tmp", "a", "b c", "\xe9t\xe9", "x.txt", "\u65e5\u672c", "..a", "A", "\ufeffx", " ", "a\u2028b", "\U0001f600"]
# a bytes-mode FilePath names the file by its bytes in the file-system encoding; the names used here are the UTF-8
# bytes of the segments, so bytes-mode values are only drawn where that is the file-system encoding
FS_UTF8 = sys.getfilesystemencoding().lower().replace("-", "") == "utf8"


def gen_path(sim):
    segs = [sim.draw_choice(PATH_SEGS, "seg") for _ in range(sim.draw_int(0, 4, "nseg"))]
    text = "/" + "/".join(segs)
    if sim.draw_bool(0.15, "bytes-mode-path") and FS_UTF8:
        sim.probe("path_bytes_mode")
        return filepath.FilePath(text.encode("utf-8"))
    return filepath.FilePath(text)


SCALARS = ["Integer", "String", "Unicode", "Float", "Boolean", "Decimal", "DateTime", "Path"]


def gen_type(sim, depth, in_list=False, pool=None):
    """-> (Argument instance, label, value generator)."""
    kinds = [(k, 3) for k in SCALARS]
    if depth < 2:
        kinds.append(("ListOf", 5))
        if not in_list:
            kinds.append(("AmpList", 4))
    k = sim.draw_weighted(kinds, "argtype")
    if k == "Integer":
        return amp.Integer(), k, gen_int
    if k == "String":
        return amp.String(), k, gen_bytes
    if k == "Unicode":
        return amp.Unicode(), k, gen_text
    if k == "Float":
        return amp.Float(), k, gen_float
    if k == "Boolean":
        return amp.Boolean(), k, lambda s: s.draw_bool(0.5, "bool")
    if k == "Decimal":
        return amp.Decimal(), k, gen_decimal
    if k == "DateTime":
        return amp.DateTime(), k, lambda s: gen_datetime(s, pool)
    if k == "Path":
        return amp.Path(), k, gen_path
    if k == "ListOf":
        et, el, eg = gen_type(sim, depth + 1, True, pool)
        return amp.ListOf(et), "ListOf(%s)" % el, lambda s: [eg(s) for _ in range(s.draw_int(0, 4, "nlist"))]
    subs = []
    for i in range(sim.draw_int(1, 3, "nsub")):
        st, sl, sg = gen_type(sim, depth + 1, False, pool)
        opt = sim.draw_bool(0.3, "optional")
        st.optional = opt
        subs.append((("m%d" % i).encode(), st, sl + ("?" if opt else ""), sg, opt))

    def gen_rows(s):
        rows = []
        for _ in range(s.draw_int(0, 3, "nrows")):
            row = {}
            for name, st, sl, sg, opt in subs:
                row[name.decode()] = None if (opt and s.draw_bool(0.4, "absent")) else sg(s)
            rows.append(row)
        return rows
    return (amp.AmpList([(name, st) for name, st, sl, sg, opt in subs]),
            "AmpList(%s)" % ",".join(sl for name, st, sl, sg, opt in subs), gen_rows)


def show(v):
    """repr without object addresses (tzinfo objects print theirs)."""
    if isinstance(v, datetime.datetime):
        return "datetime(%s)" % v.isoformat()
    if isinstance(v, list):
        return "[" + ", ".join(show(x) for x in v) + "]"
    if isinstance(v, dict):
        return "{" + ", ".join("%r: %s" % (k, show(v[k])) for k in sorted(v)) + "}"
    return repr(v)


def equal(a, b):
    if isinstance(a, float) and isinstance(b, float):
        return (math.isnan(a) and math.isnan(b)) or a == b
    if isinstance(a, decimal.Decimal) and isinstance(b, decimal.Decimal):
        if a.is_nan() or b.is_nan():
            return a.is_nan() and b.is_nan()
        return a == b
    if isinstance(a, datetime.datetime) and isinstance(b, datetime.datetime):
        oa, ob = a.utcoffset(), b.utcoffset()
        if oa is None or ob is None:
            return False
        if oa.seconds % 60 == 0 and oa.microseconds == 0:
            return a == b
        # the wire carries the offset in whole minutes only
        return a.replace(tzinfo=None) == b.replace(tzinfo=None) and abs(oa - ob) < datetime.timedelta(minutes=1)
    if isinstance(a, list) and isinstance(b, list):
        return len(a) == len(b) and all(equal(x, y) for x, y in zip(a, b))
    if isinstance(a, dict) and isinstance(b, dict):
        return sorted(a) == sorted(b) and all(equal(a[k], b[k]) for k in a)
    if isinstance(a, bool) != isinstance(b, bool):
        return False
    if isinstance(a, filepath.FilePath) and isinstance(b, filepath.FilePath) and type(a.path) is not type(b.path):
        # the wire carries the path as text; whether the FilePath object is in bytes or text mode is not carried
        return a.asTextMode().path == b.asTextMode().path
    return a == b


def ref_list(elems):
    """Reference ListOf framing: 16-bit big-endian length, then the element."""
    return b"".join(struct.pack("!H", len(e)) + e for e in elems)


TAILS = [b"\x00", b"\x00\x09x", b"\xff\xff", b"z", b"\x00\x00", b"\x00\x01"]
LONE = [b"\x00", b"\x01", b"\xff", b"-", b"\x00\x05ab", b"\x00\x00\x00"]


def damage(sim, at, value, proto, depth=0):
    """-> (operator name, bytes) : a malformed/truncated wire form derived from the well-formed encoding of value.
    Structured types are, in a share of the cases, damaged INSIDE one element/member with the outer framing
    (written by the reference framing) left intact."""
    if isinstance(at, amp.ListOf) and value and depth < 3 and sim.draw_bool(0.35, "dmg-inner"):
        i = sim.draw_int(0, len(value) - 1, "dmg-elem")
        elems = [at.elementType.toString(v) for v in value]
        op, elems[i] = damage(sim, at.elementType, value[i], proto, depth + 1)
        return "inner-" + op, ref_list(elems)
    if isinstance(at, amp.AmpList) and depth < 3:
        present = [(r, name, st) for r, row in enumerate(value) for name, st in at.subargs if row[name.decode()] is not None]
        if present and sim.draw_bool(0.35, "dmg-inner"):
            r, name, st = sim.draw_choice(present, "dmg-member")
            op, dmg = damage(sim, st, value[r][name.decode()], proto, depth + 1)
            out = []
            for j, row in enumerate(value):
                if j != r:
                    out.append(at.toStringProto([row], proto))
                    continue
                out.append(ampwire.serialize([(n, dmg if n == name else t.toStringProto(row[n.decode()], proto))
                                              for n, t in at.subargs if row[n.decode()] is not None]))
            return "inner-" + op, b"".join(out)
    good = at.toStringProto(value, proto)
    op = sim.draw_weighted([("cut-tail", 6), ("lone", 3), ("cut-any", 3), ("extra-tail", 3), ("flip", 3), ("empty", 1),
                            ("garbage", 2)], "dmg-op")
    if not good and op in ("cut-tail", "cut-any", "flip"):
        op = "lone"
    if op == "cut-tail":
        return op, good[:len(good) - sim.draw_int(1, min(4, len(good)), "dmg-cut")]
    if op == "lone":
        return op, sim.draw_choice(LONE, "dmg-lone")
    if op == "cut-any":
        return op, good[:sim.draw_int(0, len(good) - 1, "dmg-keep")]
    if op == "extra-tail":
        return op, good + sim.draw_choice(TAILS, "dmg-tail")
    if op == "flip":
        i = sim.draw_int(0, len(good) - 1, "dmg-at")
        return op, good[:i] + bytes([good[i] ^ (1 << sim.draw_int(0, 7, "dmg-bit"))]) + good[i + 1:]
    if op == "empty":
        return op, b""
    return op, sim.draw_bytes(sim.draw_int(1, 10, "dmg-len"), b"\x00\x01\xffa0-.")


class Conn:
    """One sender/receiver pair of real BinaryBoxProtocols over a link, with the boxes sent so far."""

    def __init__(self, sim, tag):
        self.tag = tag
        self.ra, self.rb = Rec(), Rec()
        self.a = amp.BinaryBoxProtocol(self.ra)
        self.b = amp.BinaryBoxProtocol(self.rb)
        self.link = net.Link(sim, self.a, self.b)
        self.link.connect()
        self.expected = []


def run_args(sim, conn0):
    """A schema of 1..4 argument objects is built once per run - as the argument objects of a Command class are - and
    used for 1..5 rounds of fresh values.  Some rounds carry, for some of the arguments, a malformed value (damage());
    what such a value decodes to is not judged, but every well-formed value, before or after, must decode equal."""
    schema = []
    pool = ZonePool()    # tzinfo objects shared by the DateTime values of the run, whichever argument object carries them
    for i in range(sim.draw_int(1, 4, "nargs")):
        at, label, gen = gen_type(sim, 0, False, pool)
        schema.append((("a%d" % i).encode(), at, label, gen))
    api = sim.draw_weighted([("argument", 5), ("command", 3)], "api")
    nrounds = sim.draw_weighted([(1, 5), (2, 3), (3, 2), (sim.draw_int(4, 5, "nrounds"), 1)], "roundskind")
    cmd = None
    if api == "command":
        cmd = type(amp.Command)("Cmd", (amp.Command,), {"arguments": [(n, at) for n, at, l, g in schema]})
    sim.config = {"mode": "args", "api": api, "rounds": nrounds}
    conns = [conn0]
    tainted = set()      # indices of argument objects that have been handed a malformed value
    uses = [0] * len(schema)
    history = []
    npieces = ndamaged_rounds = delivered = 0
    for rnd in range(nrounds):
        conn = conns[0]
        if rnd and sim.draw_bool(0.25, "other-conn"):
            # argument objects are shared by every connection that uses the command
            if len(conns) == 1:
                conns.append(Conn(sim, "2"))
            conn = conns[1]
            sim.probe("args_second_connection")
        a, b, rb, link = conn.a, conn.b, conn.rb, conn.link
        values = [gen(sim) for n, at, l, gen in schema]
        for (name, at, label, gen), value in zip(schema, values):
            sim.event("arg", rnd, conn.tag, name, label, show(value)[:200])
        box = amp.AmpBox()
        if cmd is not None:
            with sim.guard("argument-encode-raised", "command"):
                box = cmd.makeArguments({n.decode(): v for (n, at, l, g), v in zip(schema, values)}, a)
        else:
            for (name, at, label, gen), value in zip(schema, values):
                with sim.guard("argument-encode-raised", label.split("(")[0]):
                    at.toBox(name, box, {name.decode(): value}, a)
        damaged = {}
        if sim.draw_bool(0.35, "damaged-round"):
            picks = [i for i in range(len(schema)) if sim.draw_bool(0.5, "dmg-this")] or [sim.draw_int(0, len(schema) - 1, "dmg-which")]
            for i in picks:
                name, at, label, gen = schema[i]
                if sim.draw_bool(0.08, "dmg-missing"):
                    op, dmg = "missing", None
                    del box[name]
                else:
                    op, dmg = damage(sim, at, values[i], a)
                    if dmg == box[name]:
                        continue        # the operator left the value as it was
                    box[name] = dmg
                damaged[i] = op
                sim.fault("damaged_value_" + (op if not op.startswith("inner-") else "inner"))
                sim.event("damaged", rnd, name, op, dmg)
        if not ampwire.representable(box):
            # an encoded value outgrew a box value: outside the statement's domain
            sim.probe("args_too_big")
            continue
        history.append((rnd, conn.tag, [(n.decode(), l, damaged.get(i, "ok"), show(v)[:120])
                                        for i, ((n, at, l, g), v) in enumerate(zip(schema, values))]))
        ctx = lambda: "api %s, rounds (round, connection, [(name, type, ok/damage, value)]) %r" % (api, history)
        conn.expected.append(dict(box))
        with sim.guard("valid-box-refused"):
            a.sendBox(box)
        npieces = max(npieces, len(deliver_all(sim, link, rb, conn.expected, ctx, 5000 * nrounds)))
        sim.check("boxes-equal", rb.boxes == conn.expected, "args",
                  lambda: "received %s sent %s; %s" % (brief(rb.boxes), brief(conn.expected), ctx()))
        delivered += 1
        ndamaged_rounds += bool(damaged)
        got = amp.AmpBox(rb.boxes[-1])
        decoded = {}
        if cmd is not None:
            if damaged:
                # one malformed member may make the whole parse fail; no verdict on that
                try:
                    decoded = cmd.parseArguments(got, b)
                    sim.probe("damaged_accepted")
                except Exception as e:
                    sim.event("damaged-refused", type(e).__name__)
                    sim.probe("damaged_refused")
                    decoded = None
            else:
                with sim.guard("argument-decode-raised", "command"):
                    decoded = cmd.parseArguments(got, b)
        for i, ((name, at, label, gen), value) in enumerate(zip(schema, values)):
            base = label.split("(")[0]
            uses[i] += 1
            if i in damaged:
                if cmd is None:
                    try:
                        at.fromBox(name, got.copy(), {}, b)
                        sim.probe("damaged_accepted")
                    except Exception as e:
                        sim.event("damaged-refused", name, type(e).__name__)
                        sim.probe("damaged_refused")
                tainted.add(i)
                continue
            if cmd is None:
                with sim.guard("argument-decode-raised", base):
                    at.fromBox(name, got.copy(), decoded, b)
            elif decoded is None:
                continue
            dec = decoded.get(name.decode())
            sim.check("argument-equal", equal(value, dec), base,
                      lambda: "%s: encoded %s as %r, decoded %s; %s" % (label, show(value), conn.expected[-1].get(name), show(dec), ctx()))
            sim.probe("arg_" + base)
            if uses[i] > 1:
                sim.probe("arg_object_reused")
            if i in tainted:
                sim.probe("arg_decoded_after_malformed")
    for c in conns:
        sim.check("sender-quiet", not c.ra.boxes, "args", lambda: "sender's receiver got %r" % (c.ra.boxes,))
        sim.check("receiver-closed", not c.link.b.disconnecting and not c.rb.stopped, "args",
                  lambda: "the receiving side of connection %s was closed" % c.tag)
    sim.state(("args", tuple(sorted(set(l.split("(")[0] for n, a_, l, g in schema))), min(delivered, 3), min(ndamaged_rounds, 2)))
    sim.nontrivial = npieces > 1 and delivered > 0


def run(sim):
    mode = sim.draw_weighted([("wire", 6), ("args", 4)], "mode")
    conn = Conn(sim, "1")
    sim.config = {"mode": mode}
    if mode == "wire":
        run_wire(sim, conn.link, conn.a, conn.b, conn.rb)
        sim.check("sender-quiet", not conn.ra.boxes, mode, lambda: "sender's receiver got %r" % (conn.ra.boxes,))
    else:
        run_args(sim, conn)


# Sensitivity (tools/mutate.py C30 --sub src/twisted/protocols/amp.py OLD NEW; known empty-key
# signature suppressed while testing).  All caught (exit 1).
MUTANTS = [
    "AmpBox.serialize: 'if len(k) > MAX_KEY_LENGTH' -> '>=' (255-byte key refused) : caught (valid-box-refused:TooLong)",
    "AmpBox.serialize: 'if len(v) > MAX_VALUE_LENGTH' -> '>=' (65535-byte value refused) : caught (valid-box-refused:TooLong)",
    "AmpBox.serialize: value length check removed + 'pack(\"!H\", len(kv) & 0xFFFF)' (16-bit overflow writes a truncated prefix) : caught (unrepresentable-accepted:value-65536/value-long)",
    "AmpBox.serialize: key length check 'len(k) > 0xFFFF' : caught (unrepresentable-accepted:key-256/key-long)",
    "AmpBox.serialize: str value coerced instead of TypeError : caught (unrepresentable-accepted:str-value)",
    "BinaryBoxProtocol: '_MAX_VALUE_LENGTH = 65535' -> 65534 : caught (boxes-equal:wire, received-prefix:wire)",
    "BinaryBoxProtocol.proto_key: 'if string:' -> 'if string.strip(b\"\\x00\"):' (all-NUL key ends the box) : caught (received-prefix:wire)",
    "basic.IntNStringReceiver: drop a partial length prefix left at the end of a delivery : caught (boxes-equal:wire/args)",
    "Float.toString: str(x) -> '%.15g' % x : caught (argument-equal:Float/ListOf/AmpList)",
    "DateTime.toString: 'abs(minutesOffset) % 60' -> '% 30' : caught (argument-equal:DateTime)",
    "DateTime.toString: 'if minutesOffset > 0' -> '< 0' (sign flipped) : caught (argument-equal:DateTime)",
    "Unicode.toString: encode('utf-8') -> encode('latin-1', 'replace') : caught (argument-decode-raised:Unicode:UnicodeDecodeError)",
    "Argument.fromBox: optional absent member not set to None : caught (argument-equal:AmpList)",
    "ListOf.fromString: the Int16StringReceiver kept on the argument object instead of one per value (the undelivered tail of a "
    "truncated list value is prepended to the next value) : caught (argument-equal:ListOf, argument-decode-raised:ListOf/command)",
    "ListOf.fromString: element strings accumulated in a list kept on the argument object and popped as they decode (elements left "
    "behind when an element decoder raised) : caught (argument-equal:ListOf)",
    "AmpList.fromStringProto: one BinaryBoxProtocol row parser kept on the argument object instead of parseString per value : "
    "caught (argument-equal:AmpList, argument-decode-raised:AmpList/command)",
    "Unicode.fromString: an incremental UTF-8 decoder kept on the argument object (the bytes of a cut multi-byte character are "
    "prepended to the next value) : caught (argument-decode-raised:Unicode/ListOf/command:UnicodeDecodeError)",
    "DateTime.toString: the formatted offset remembered on the argument object together with the tzinfo object of the value "
    "serialized last and re-used while the next value carries the same tzinfo object : caught (argument-equal:DateTime/ListOf/AmpList)",
    "DateTime.toString: 'offset = i.utcoffset()' -> 'i.tzinfo.utcoffset(None)' (the zone's standard offset whatever the date) : "
    "caught (argument-equal:DateTime/ListOf/AmpList)",
    "DateTime.toString: 'offset = i.utcoffset()' -> 'i.replace(hour=12).utcoffset()' (offset decided per date) / "
    "'i.replace(minute=0).utcoffset()' (per hour) : both caught (argument-equal:DateTime/ListOf/AmpList; values to the minute around a switch)",
    "Unicode.fromString: decode('utf-8') -> decode('utf-8-sig') (a leading U+FEFF dropped) : caught (argument-equal:Unicode/ListOf/AmpList)",
    "Unicode.fromString: '.decode(\"utf-8\")' -> '.decode(\"utf-8\").strip()' : caught (argument-equal:Unicode/ListOf/AmpList)",
    "Unicode.fromString: result passed through unicodedata.normalize('NFC', ...) : caught (argument-equal:Unicode/ListOf/AmpList)",
    "Unicode.fromString: '.decode(\"utf-8\", \"replace\")' : not caught, as it must be (identical on every well-formed value; malformed ones are not judged)",
    "Path.toString: 'inObject.asTextMode().path' -> 'inObject.path' : caught (argument-encode-raised:Path, bytes-mode paths)",
    "TREE AS FIRST EXAMINED (fe06844 reverted) with WIDE_BUFFER_WEIGHT=4: AmpBox.serialize wrote the ITEM count of array('H'/'I'/'d') / memoryview-of-array "
    "values as the length prefix : C30:buffer-value-corrupts-stream:wide-array / wide-view (genuine defect, REPAIRED in /repo fe06844; witness "
    "AmpBox({b'k': array.array('H',[1,2,3])}).serialize() wrote length 3 in front of 6 bytes; knob now at 4, 0 only for dev-time comparison); "
    "repair: 'if not isinstance(v, bytes): v = memoryview(v).tobytes()' before the length checks : check passes with the knob at 4",
    "repair in /repo 58434a7, AmpBox.serialize: 'if len(k) == 0: raise ValueError(...)' before the TooLong check : check passes with EMPTY_KEY_WEIGHT=8 (24000 runs, exit 0)",
]
