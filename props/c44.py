"""C44 — Banana round-trips and enforces its limits.

Engine E3 (net).  A real Banana client and a real Banana server are joined by a
net.Link and negotiate their dialect over it (the server offers [pb, none] or
[none, pb], so both 'with' and 'without the pb vocabulary' occur); both then get
a tape-chosen prefix limit (64, 10, 5 or 3 base-128 digits).

* "roundtrip" runs: one side sends 1..4 expressions with sendEncoded: nested
  lists/tuples (depth <= 6) of integers at the boundaries of the INT/LONGINT
  ranges and of the prefix limit, floats (NaN/inf/-0.0/random bit patterns),
  byte strings (lengths around 127/128, 16383/16384, rarely SIZE_LIMIT, pb
  vocabulary words), mixed with values outside the limits (an integer needing
  one more prefix digit, a string / list one longer than SIZE_LIMIT, possibly
  nested).  The bytes are delivered in tape-chosen pieces.
* "decode-refusal" runs: after 0..2 real expressions the sending transport is
  handed a hand-built element with an over-long prefix, a LIST or STRING length
  above SIZE_LIMIT - or exactly AT the limit, which must be accepted.

* limit-change family (a third of the runs, both kinds above): the RECEIVING application changes the prefix limit in
  the middle of the stream - with Banana.setPrefixLimit on the instance (raised or lowered, also by one digit) or with
  the module-level banana.setPrefixLimit (which by its documentation concerns connections established later only) -
  either from inside expressionReceived at a tape-chosen message, so that the items that follow in the SAME delivery
  must already be judged by the new limit, or between two deliveries (possibly with an item partly buffered).  The
  sender's own limit is then the larger of the two (rarely 64 or the smaller one), integers are sized around both
  limits, the hand-built element is sized against the old or the new limit.

* empty deliveries (a quarter of the runs): dataReceived(b"") is mixed into the payload stream, before a piece or after the
  last one - at the end of an expression, at the end of an element inside an open list (reference tokenizer
  models.banana.token_ends) and, with the knob EMPTY_INSIDE_ELEMENT_P, inside an element.  An empty piece is a piece of a
  segmentation: it must not raise and what is received stays the same.
* free functions (FUNCTIONS_P of the runs, after the connection part): a series of 2..5 calls of banana.encode() /
  banana.decode() - the coder the module keeps for whole expressions (prefix limit 64, no vocabulary): round trips, values
  outside the limits (refused by encode), hand-built streams (over-long prefix, list/string length above SIZE_LIMIT:
  BananaError; a 64-digit prefix: accepted), truncated streams (no verdict on the call itself).  Every call stands for
  itself (test_banana: "calls to banana.decode are independent of each other"): a round trip yields an equal structure
  whatever decode() was handed before.  With the knob FAILED_DECODE_IN_LIST_P the refused / truncated stream stops inside
  an open list.

Oracle: a reference decoder at item level (models.banana.judge) walks the items in order with the limit in force:
the old one up to and including the item in whose callback the limit was changed, the new one after it; an item
whose longest prefix exceeds the limit in force, or that announces a length above SIZE_LIMIT, is refused.  Received
expressions == the accepted ones (tuples as lists, floats bit for bit, no int/float/bool mixing), in order; an
out-of-limit value raises BananaError from sendEncoded and writes nothing; a refused item raises BananaError from
dataReceived (by the end of the stream) and nothing after it is delivered; an at-limit prefix/length is accepted.
No verdict: on the one item that was in progress when the limit was changed BETWEEN deliveries if its longest prefix
lies between the two limits (the statement does not say which limit judges it; the real decoder re-judges a partly
buffered prefix/string header but not a list header already consumed); on hand-built elements within the limit in
force that are well delimited but unusual (all-zero digits, INT/NEG beyond 32 bits).  After a module-level change a
connection established afterwards must work with the new limit (encode refusal, round-trip at the limit, decode refusal).
"""
import struct

from twisted.spread import banana

from detsim import net
from detsim.sim import Violation
from models import banana as bm

ID = "C44"
ENGINE = "net"
LEVEL = "exploration"
TECHNIQUE = ("deterministic simulation: seeded expression grammar with boundary values sent between two real Banana "
             "instances (dialect negotiated over the link) under seeded segmentation, plus hand-built over-limit elements and "
             "prefix limits changed by the receiving application from inside expressionReceived / between deliveries, empty "
             "deliveries, and series of calls of the module's own encode()/decode() with refused and truncated streams in between")
QUICK_RUNS = 50000
TWIN_P = 0.08   # this share of the runs drives two independent instances of the scenario one after the other (detsim.runner._run_scenario)
BATCH = 100
COMPONENTS = {
    "real": ["twisted.spread.banana.Banana (connectionMade negotiation, sendEncoded/_encode, dataReceived, setPrefixLimit)",
             "twisted.spread.banana.setPrefixLimit (module level)", "twisted.spread.banana.int2b128/b1282int",
             "twisted.spread.banana.encode / decode (free functions over the module-level coder)"],
    "stub": ["TCP transport and delivery segmentation (detsim.net.Link / cut)",
             "expressionReceived recorder that may call setPrefixLimit at a tape-chosen message"],
}
RULE = ("run = dialect negotiation over the link, then 1..4 expressions (some outside the limits) sent with sendEncoded, or "
        "real expressions followed by a hand-built over-limit / at-limit element, delivered in tape-chosen pieces; in a third of "
        "the runs the receiving application changes the prefix limit (instance or module-level setPrefixLimit; raised or lowered) "
        "from inside expressionReceived at a tape-chosen message or between two deliveries, with items sized around both limits; "
        "in a quarter of the runs 1..3 empty deliveries are placed at element / expression ends of the stream; 15% of the runs end "
        "with 2..5 calls of banana.encode()/decode() (round trips, out-of-limit values, refused / at-limit / truncated streams); "
        "non-trivial = the payload stream was cut at least once")
ASSUMPTIONS = [
    "prefix limits below 3 digits are not used (string/list lengths up to SIZE_LIMIT need 3 digits)",
    "bool values are not sent (bool is an int subclass; the statement speaks of integers)",
    "the transport stops delivering after dataReceived raised",
    "a limit changed inside expressionReceived applies to every item after the expression being handed over, also in the same "
    "delivery (nothing of a later item has been judged at that moment); for a change between deliveries the item in progress "
    "gets no verdict when its longest prefix lies between the two limits",
    "the module-level setPrefixLimit leaves established connections alone (its documentation: 'connections established after "
    "this call'); it is reset to 64 at the end of every run",
    "the class attribute Banana.sizeLimit is never consulted by the unchanged decoder/encoder (SIZE_LIMIT is) and is undocumented: "
    "it is not varied and no verdict depends on it",
    "an empty delivery is a legal piece of a segmentation (IProtocol.dataReceived sets no minimum length; the stock reactors never "
    "deliver one, wrappers and in-memory transports may); inside an element it is made with EMPTY_INSIDE_ELEMENT_P (0.5 of such gaps; the "
    "decoder of the tree as first examined failed its 'This ain't right' assertion there - genuine defect, REPAIRED in /repo a57c4fd)",
    "banana.encode()/decode() work with the limit the module had when it was imported (64); a truncated stream is not an encoding: "
    "no verdict on what decode() does with it; refused / truncated streams that stop inside an open list are handed to decode() only "
    "with FAILED_DECODE_IN_LIST_P (0.5 of such streams; decode() of the tree as first examined kept the open list for the next call - genuine "
    "defect, REPAIRED in /repo 4eff4c5); the coder's "
    "listStack/buffer are cleared at the end of every run (run isolation, it lives as long as the worker process)",
]

# empty deliveries (dataReceived(b"")) mixed into the payload stream: share of the runs, and - for a gap that lies INSIDE an
# element (prefix digits without their type byte, a string or float with bytes missing) - the share in which the empty
# delivery is made there.  The second knob is 0.5: the decoder of the tree as first examined failed an assertion there (genuine defect,
# REPAIRED in /repo a57c4fd, see MUTANTS); 0 keeps the precondition out and is only for dev-time comparison
EMPTY_DELIVERIES_P = 0.25
EMPTY_INSIDE_ELEMENT_P = 0.5
# free functions banana.encode()/banana.decode(): share of the runs that end with a series of calls, and the share of the
# refused / truncated streams handed to decode() that stop inside an open list.  The second knob is 0.5: decode() of the tree as
# first examined kept the open list for the next call (genuine defect, REPAIRED in /repo 4eff4c5, see MUTANTS); 0 keeps the
# precondition out and is only for dev-time comparison
FUNCTIONS_P = 0.15
FAILED_DECODE_IN_LIST_P = 0.5

VOCAB_WORDS = [b"None", b"list", b"tuple", b"message", b"answer", b"dictionary", b"uncache", b"class"]


class B(banana.Banana):
    hook = None     # application behaviour inside expressionReceived: called with the number of expressions received so far

    def __init__(self, isClient, got):
        banana.Banana.__init__(self, isClient)
        self.got = got

    def expressionReceived(self, obj):
        self.got.append(obj)
        if self.hook is not None:
            self.hook(len(self.got))


def gen_int(sim, limit, cap=None):
    """An integer sized around `limit` digits (the limit of interest) that the sender - whose own limit is `cap` digits -
    can encode; with cap > limit the values just above `limit` digits occur as well."""
    top = 2 ** (7 * limit) - 1
    captop = top if cap is None else 2 ** (7 * cap) - 1
    k = sim.draw_weighted([("small", 4), ("edge", 6), ("big", 3)], "intkind")
    if k == "small":
        return sim.draw_int(-300, 300, "int")
    if k == "edge":
        edges = [0, 1, -1, 127, 128, -127, -128, 16383, 16384, 2 ** 31 - 1, 2 ** 31, -2 ** 31, -2 ** 31 - 1,
                 top, -top, top - 1, -(top - 1), 2 ** (7 * (limit - 1)), -2 ** (7 * (limit - 1)), top + 1, -(top + 1)]
        return sim.draw_choice([v for v in edges if abs(v) <= captop], "edge")
    nbits = sim.draw_int(8, 7 * limit, "nbits")
    v = int.from_bytes(sim.draw_blob((nbits + 7) // 8), "big") & ((1 << nbits) - 1)
    return -v if sim.draw_bool(0.5, "neg") else v


def gen_float(sim):
    if sim.draw_bool(0.5, "special"):
        return sim.draw_choice([0.0, -0.0, float("nan"), float("inf"), float("-inf"), 1.5, -1e308, 5e-324,
                                struct.unpack("!d", b"\x7f\xf8\x00\x00\x00\x00\x00\x01")[0],
                                struct.unpack("!d", b"\xff\xf0\x00\x00\x00\x00\x00\x01")[0]], "fspecial")
    return struct.unpack("!d", sim.draw_blob(8))[0]


def gen_bytes(sim, budget):
    k = sim.draw_weighted([("short", 8), ("vocab", 3), ("b128", 3), ("long", 2), ("limit", 1 if budget[0] > 0 else 0)], "strkind")
    if k == "short":
        return sim.draw_bytes(sim.draw_int(0, 12, "slen"), b"ab\x00\x80\xff\x82")
    if k == "vocab":
        return sim.draw_choice(VOCAB_WORDS, "word")
    if k == "b128":
        return sim.draw_blob(sim.draw_choice([127, 128, 129, 16383, 16384], "slen"))
    if k == "long":
        return sim.draw_blob(sim.draw_int(13, 3000, "slen"))
    budget[0] -= 1
    return sim.draw_blob(bm.SIZE_LIMIT - sim.draw_choice([0, 1], "below"))


def gen_expr(sim, limit, depth, budget, cap=None):
    kinds = [("int", 4), ("bytes", 3), ("float", 2)]
    if depth < 6:
        kinds.append(("list", 5 if depth == 0 else 2))
    k = sim.draw_weighted(kinds, "kind")
    if k == "int":
        return gen_int(sim, limit, cap)
    if k == "bytes":
        return gen_bytes(sim, budget)
    if k == "float":
        return gen_float(sim)
    items = [gen_expr(sim, limit, depth + 1, budget, cap) for _ in range(sim.draw_int(0, 4, "nitems"))]
    return tuple(items) if sim.draw_bool(0.3, "tuple") else items


def gen_outside(sim, limit):
    """A value outside the limits, possibly nested in a list."""
    top = 2 ** (7 * limit)
    k = sim.draw_weighted([("int-over", 4), ("int-under", 4), ("int-far", 2), ("string", 1), ("list", 1)], "outside")
    if k == "int-over":
        v = top
    elif k == "int-under":
        v = -top
    elif k == "int-far":
        v = (top << sim.draw_int(1, 40, "shift")) * sim.draw_choice([1, -1], "sign")
    elif k == "string":
        v = bytes(bm.SIZE_LIMIT + 1)
    else:
        v = [0] * (bm.SIZE_LIMIT + 1)
    for _ in range(sim.draw_int(0, 2, "nest")):
        v = [sim.draw_int(0, 9, "sibling"), v] if sim.draw_bool(0.5, "before") else [v, b"x"]
    return k, v


def show(obj, depth=0):
    if isinstance(obj, (list, tuple)):
        if len(obj) > 8:
            return "<%s of %d>" % (type(obj).__name__, len(obj))
        s = ", ".join(show(x, depth + 1) for x in obj)
        return "[%s]" % s if isinstance(obj, list) else "(%s)" % s
    if isinstance(obj, bytes) and len(obj) > 16:
        return "<%d bytes>" % len(obj)
    if isinstance(obj, float):
        return "float:" + struct.pack("!d", obj).hex()
    if isinstance(obj, int) and abs(obj) > 10 ** 12:
        return "int(%d bits,%s)" % (obj.bit_length(), "-" if obj < 0 else "+")
    return repr(obj)


LIMITS = [64, 10, 5, 3]


def late_connection(sim, limit):
    """The module-level setPrefixLimit(limit) was called: a connection established afterwards works with that limit."""
    g1, g2 = [], []
    c2, s2 = B(1, g1), B(0, g2)
    l2 = net.Link(sim, c2, s2)
    l2.connect()
    with sim.guard("negotiation-raised", "late-connection"):
        l2.run()
    top = 2 ** (7 * limit) - 1
    neg = sim.draw_bool(0.5, "late-neg")
    v = -top if neg else top
    with sim.guard("valid-value-refused", "late-connection"):
        s2.sendEncoded([v])
    with sim.guard("valid-stream-refused", "late-connection"):
        l2.run()
    sim.check("expressions-equal", len(g1) == 1 and bm.same(g1[0], [v]) and not g2, "late-connection",
              lambda: "module-level prefix limit %d: a later connection received %s for %s" % (limit, [show(x) for x in g1], show([v])))
    raised = None
    try:
        s2.sendEncoded(-(top + 1) if neg else top + 1)
    except banana.BananaError as e:
        raised = e
    sim.check("outside-limit-encoded", raised is not None, "late-connection",
              lambda: "module-level prefix limit %d: a later connection encoded an integer of %d digits" % (limit, limit + 1))
    l2.b.write(b"\x01" * (limit + 1) + (bm.LONGNEG if neg else bm.LONGINT))
    raised = None
    try:
        l2.run()
    except banana.BananaError as e:
        raised = e
    sim.check("over-limit-decoded", raised is not None and len(g1) == 1, "late-connection",
              lambda: "module-level prefix limit %d: a later connection accepted a prefix of %d digits (received %s)" % (limit, limit + 1, [show(x) for x in g1]))
    sim.probe("late_connection_checked")


def free_functions(sim):
    """banana.encode() / banana.decode(): the module's own coder for one expression at a time (prefix limit 64, no
    vocabulary).  A series of calls on the one coder the module keeps: round trips, values outside the limits, hand-built
    streams that must be refused or (at the limit) accepted, truncated streams.  Every call stands for itself: a round
    trip yields an equal structure whatever was handed to decode() before."""
    budget = [1]
    failed_before = False
    for _ in range(sim.draw_int(2, 5, "fn-ops")):
        sim.step(6000)
        op = sim.draw_weighted([("roundtrip", 6), ("refused", 3), ("truncated", 2), ("outside", 1), ("at-limit", 1)], "fn-op")
        tag = "function-after-failed-decode" if failed_before else "function"
        if op in ("roundtrip", "at-limit"):
            if op == "roundtrip":
                e = gen_expr(sim, 64, 0, budget, 64)
                with sim.guard("valid-value-refused", "function"):
                    raw = banana.encode(e)
                want = bm.normalise(e)
                clause = "valid-stream-refused"
            else:
                digit = bytes([sim.draw_choice([1, 0x7F, 0, 0x40], "digit")])
                digits = digit * 63 + b"\x01"
                neg = sim.draw_bool(0.5, "neg")
                raw = digits + (bm.LONGNEG if neg else bm.LONGINT)
                want = sum(d << (7 * i) for i, d in enumerate(digits)) * (-1 if neg else 1)
                clause = "at-limit-refused"
            sim.event("fn-" + op, show(want))
            sim.probe("fn_" + op.replace("-", "_") + ("_after_failed_decode" if failed_before else ""))
            back = None
            try:
                back = banana.decode(raw)
            except Violation:
                raise
            except Exception as ex:
                sim.fail(clause, tag, "banana.decode raised %r for the encoding of %s" % (ex, show(want)))
            sim.check("expressions-equal", bm.same(back, want), tag,
                      lambda: "banana.decode returned %s for the encoding of %s" % (show(back), show(want)))
        elif op == "outside":
            kind, v = gen_outside(sim, 64)
            sim.event("fn-outside", kind)
            sim.probe("fn_outside")
            raised = None
            try:
                banana.encode(v)
            except banana.BananaError as ex:
                raised = ex
            except Violation:
                raise
            except Exception as ex:
                sim.fail("unexpected-exception", "encode-function:" + type(ex).__name__, "%r for %s" % (ex, show(v)))
            sim.check("outside-limit-encoded", raised is not None, kind + "+function", lambda: "banana.encode accepted %s" % show(v))
        else:
            in_list = FAILED_DECODE_IN_LIST_P > 0 and sim.draw_bool(FAILED_DECODE_IN_LIST_P, "fn-in-list")
            if op == "refused":
                kind = sim.draw_weighted([("prefix-over", 4), ("prefix-over-no-type", 2), ("list-over", 2), ("string-over", 2)], "fn-crafted")
                raw = b""
                if in_list:
                    raw = bm.b128(2) + bm.LIST + bm.b128(7) + bm.INT
                elif sim.draw_bool(0.3, "fn-lead"):
                    raw = banana.encode(gen_expr(sim, 64, 0, budget, 64))       # a complete expression first
                digit = bytes([sim.draw_choice([1, 0x7F, 0, 0x40], "digit")])
                if kind == "prefix-over":
                    raw += digit * (64 + sim.draw_choice([1, 2, 10], "extra")) + sim.draw_choice(
                        [bm.INT, bm.LONGINT, bm.NEG, bm.LONGNEG, bm.STRING, bm.LIST], "type")
                elif kind == "prefix-over-no-type":
                    raw += digit * (64 + sim.draw_choice([1, 5, 40], "extra"))
                elif kind == "list-over":
                    raw += bm.b128(bm.SIZE_LIMIT + sim.draw_choice([1, 2, 1000], "over")) + bm.LIST
                else:
                    raw += bm.b128(bm.SIZE_LIMIT + sim.draw_choice([1, 2, 1000], "over")) + bm.STRING + b"abc"
                sim.event("fn-refused", kind, in_list)
                sim.probe("fn_refused_" + kind)
                outcome = None
                try:
                    outcome = "returned %s" % show(banana.decode(raw))
                except banana.BananaError:
                    pass
                except Violation:
                    raise
                except Exception as ex:
                    outcome = "raised %r" % (ex,)
                sim.check("over-limit-decoded", outcome is None, kind + "+function", lambda: "banana.decode %s, no BananaError" % outcome)
            else:
                # a stream that stops in the middle of an element: not an encoding, so no verdict on what decode() does
                # with it - only the calls that follow are judged
                if in_list:
                    e = [sim.draw_int(0, 9, "sibling"), gen_expr(sim, 64, 1, budget, 64)]
                else:
                    k = sim.draw_choice(["bytes", "int", "float"], "fn-trunc-kind")
                    e = gen_bytes(sim, budget) if k == "bytes" else gen_int(sim, 64, 64) if k == "int" else gen_float(sim)
                raw = banana.encode(e)
                lo = 2 if in_list else 1
                if len(raw) <= lo:
                    continue
                raw = raw[:sim.draw_int(lo, len(raw) - 1, "fn-cut")]
                sim.event("fn-truncated", show(e), len(raw))
                sim.probe("fn_truncated")
                try:
                    banana.decode(raw)
                except Violation:
                    raise
                except Exception:
                    pass
            if in_list:
                sim.fault("failed_decode_inside_open_list")
            failed_before = True


def run(sim):
    try:
        _run(sim)
    finally:
        banana.setPrefixLimit(64)
        # run isolation: the coder behind banana.encode()/decode() lives as long as the worker process
        coder = getattr(banana, "_i", None)
        if coder is not None:
            if getattr(coder, "listStack", None):
                del coder.listStack[:]
            coder.buffer = b""


def _run(sim):
    got_c, got_s = [], []
    client, server = B(1, got_c), B(0, got_s)
    offer = sim.draw_choice([[b"pb", b"none"], [b"none", b"pb"]], "offer")
    server.knownDialects = offer
    link = net.Link(sim, client, server)
    link.connect()
    with sim.guard("negotiation-raised"):
        link.run()
    sim.check("negotiated", client.currentDialect == offer[0] and server.currentDialect == offer[0] and not got_c and not got_s,
              "dialect", lambda: "offer %r: client %r server %r, expressions %r %r" % (offer, client.currentDialect, server.currentDialect, got_c, got_s))
    limit = sim.draw_choice(LIMITS, "prefixlimit")      # the receiver's limit at the start
    # limit-change family: the receiving application changes the limit in the middle of the stream
    change = None
    send_limit = limit
    if sim.draw_bool(0.33, "limit-change"):
        new = sim.draw_choice([v for v in LIMITS + [limit + 1, limit - 1] if v != limit and v >= 3], "new-limit")
        how = sim.draw_weighted([("instance", 6), ("module", 2)], "change-how")          # Banana.setPrefixLimit / banana.setPrefixLimit
        where = sim.draw_weighted([("callback", 7), ("between", 3)], "change-where")     # inside expressionReceived / between two deliveries
        at = sim.draw_weighted([(0, 5), (1, 3), (2, 1)], "change-at") if where == "callback" else None
        change = {"new": new, "how": how, "where": where, "at": at, "fired": False, "got": None, "coalesced": False}
        # the sender may send whatever either limit admits (or, rarely, more / less than that)
        send_limit = sim.draw_weighted([(max(limit, new), 6), (64, 1), (min(limit, new), 1)], "send-limit")
    client.setPrefixLimit(limit)
    server.setPrefixLimit(limit)
    c2s = sim.draw_bool(0.5, "server-sends")      # True: the server is the sender
    sender, receiver, recv_name, got = (server, client, "A", got_c) if c2s else (client, server, "B", got_s)
    sender.setPrefixLimit(send_limit)
    st = link.b if c2s else link.a          # sender's transport
    mode = sim.draw_weighted([("roundtrip", 6), ("decode-refusal", 4)], "mode")
    sim.config = {"dialect": offer[0].decode(), "prefix_limit": limit, "sender": "server" if c2s else "client", "mode": mode,
                  "limit_change": None if change is None else "%s/%s->%d" % (how, where, new), "send_limit": send_limit}
    del st.written[:]
    items = []              # bm.Item per element on the wire, in order
    log = []
    budget = [1]
    ends = []
    new_eff = limit if change is None or change["how"] == "module" else change["new"]    # the receiver's limit after the change

    def around():
        """The limit the next expression's integers are sized around."""
        if change is None:
            return limit
        if change["where"] == "callback" and len(items) <= change["at"]:
            w = [(limit, 6), (change["new"], 1), (send_limit, 1)]
        else:
            w = [(change["new"], 3), (limit, 3), (send_limit, 1)]
        return min(sim.draw_weighted(w, "around"), send_limit)

    def send_real():
        e = gen_expr(sim, around(), 0, budget, send_limit)
        log.append(show(e))
        sim.event("send", show(e))
        with sim.guard("valid-value-refused"):
            sender.sendEncoded(e)
        items.append(bm.Item("real", bm.max_prefix(e), bm.normalise(e)))
        ends.append(len(st.written))

    if mode == "roundtrip":
        for _ in range(sim.draw_int(1, 4, "nexpr") + (1 if change else 0)):
            if sim.draw_bool(0.25, "outside"):
                kind, v = gen_outside(sim, send_limit)
                before = len(st.written)
                log.append("OUTSIDE:" + kind)
                sim.event("send-outside", kind, show(v))
                sim.probe("outside_" + kind)
                raised = None
                try:
                    sender.sendEncoded(v)
                except banana.BananaError as e:
                    raised = e
                except Violation:
                    raise
                except Exception as e:
                    sim.fail("unexpected-exception", "encode:" + type(e).__name__, "%r for %s" % (e, show(v)))
                sim.check("outside-limit-encoded", raised is not None, kind,
                          lambda: "sendEncoded accepted %s (prefix limit %d) and wrote %d bytes" % (show(v), send_limit, len(st.written) - before))
                sim.check("refusal-wrote-bytes", len(st.written) == before, kind,
                          lambda: "sendEncoded raised but wrote %d bytes" % (len(st.written) - before))
            else:
                send_real()
    else:
        for _ in range(sim.draw_int(0, 2, "nbefore") + (1 if change else 0)):
            send_real()
        kind = sim.draw_weighted([("prefix-over", 4), ("prefix-at", 3), ("prefix-over-no-type", 2), ("list-over", 2), ("list-at", 1),
                                  ("string-over", 2), ("string-at", 1)], "crafted")
        # the limit the hand-built element is sized against: with a change, the old or the new one
        craft = limit if change is None else sim.draw_choice([change["new"], limit], "craft-limit")
        wrap = sim.draw_bool(0.3, "inside-list")
        raw = bm.b128(2) + bm.LIST + bm.b128(7) + bm.INT if wrap else b""
        digit = bytes([sim.draw_choice([1, 0x7F, 0, 0x40], "digit")])
        if kind == "prefix-over":
            n = craft + sim.draw_choice([1, 2, 10], "extra")
            raw += digit * n + sim.draw_choice([bm.INT, bm.LONGINT, bm.NEG, bm.LONGNEG, bm.STRING, bm.LIST], "type")
            item = bm.Item(kind, n, bm.INCOMPLETE)      # what it is for a receiver whose limit admits n digits: see below
        elif kind == "prefix-over-no-type":
            n = craft + sim.draw_choice([1, 5, 40], "extra")
            raw += digit * n
            item = bm.Item(kind, n, bm.INCOMPLETE)
        elif kind == "prefix-at":
            # exactly `craft` digits: the largest prefix that must still be accepted
            digits = digit * (craft - 1) + b"\x01"
            value = sum(d << (7 * i) for i, d in enumerate(digits))
            neg = sim.draw_bool(0.5, "neg")
            raw += digits + (bm.LONGNEG if neg else bm.LONGINT)
            item = bm.Item(kind, craft, [7, -value if neg else value] if wrap else (-value if neg else value))
        elif kind == "list-over":
            raw += bm.b128(bm.SIZE_LIMIT + sim.draw_choice([1, 2, 1000], "over")) + bm.LIST
            item = bm.Item(kind, 3, bm.INCOMPLETE, over=True)
        elif kind == "list-at":
            raw += bm.b128(bm.SIZE_LIMIT) + bm.LIST + bm.b128(1) + bm.INT
            item = bm.Item(kind, 3, bm.INCOMPLETE)
        elif kind == "string-over":
            raw += bm.b128(bm.SIZE_LIMIT + sim.draw_choice([1, 2, 1000], "over")) + bm.STRING + b"abc"
            item = bm.Item(kind, 3, bm.INCOMPLETE, over=True)
        else:
            raw += bm.b128(bm.SIZE_LIMIT) + bm.STRING + b"abc"
            item = bm.Item(kind, 3, bm.INCOMPLETE)
        if kind == "prefix-over":
            # an over-long prefix WITH a type byte is a complete element for a receiver whose limit admits it (possible only
            # after a limit change).  A string/list length above SIZE_LIMIT has to be refused all the same; a canonical
            # integer of the right family has to be delivered; anything else (all-zero digits, INT/NEG beyond 32 bits) is
            # a well-delimited element the statement says nothing about
            t = raw[-1:]
            value = sum(d << (7 * i) for i, d in enumerate(raw[-1 - n:-1]))
            if t in (bm.STRING, bm.LIST) and value > bm.SIZE_LIMIT:
                item.over = True
            elif value and (t in (bm.LONGINT, bm.LONGNEG) or (t == bm.INT and value < 2 ** 31) or (t == bm.NEG and value <= 2 ** 31)):
                value = -value if t in (bm.NEG, bm.LONGNEG) else value
                item.value = [7, value] if wrap else value
            else:
                item.value = bm.UNSPECIFIED
        log.append("CRAFTED:%s%s" % (kind, "(in list)" if wrap else ""))
        sim.event("crafted", kind, raw)
        sim.probe("crafted_" + kind)
        st.write(raw)
        items.append(item)
        ends.append(len(st.written))

    # what the receiving application does inside expressionReceived
    delivered_upto = [0]     # stream offset of the end of the delivery in progress
    if change is not None and change["where"] == "callback":
        def hook(count):
            if count != change["at"] + 1 or change["fired"]:
                return
            change["fired"] = True
            sim.event("limit-change", "callback", change["how"], change["new"])
            sim.fault("limit_change_in_callback")
            change["coalesced"] = delivered_upto[0] > ends[change["at"]]
            if change["how"] == "instance":
                receiver.setPrefixLimit(change["new"])
            else:
                banana.setPrefixLimit(change["new"])
        receiver.hook = hook

    # deliver what the sender wrote
    side = "B" if c2s else "A"              # name of the SENDER's transport
    if st.out:
        link.do("xmit", side)
    wire = bytes(link.flight[recv_name])
    styles = None if len(wire) < 100000 else sim.draw_choice(["whole", "one", "few", "edges"], "bigcut")
    pieces = net.cut(sim, wire, styles, ends)
    change_after = None
    if change is not None and change["where"] == "between" and pieces:
        change_after = sim.draw_int(0, len(pieces) - 1, "change-after-piece")
    all_values = [it.value for it in items if it.value is not bm.INCOMPLETE and it.value is not bm.UNSPECIFIED]
    most = len(all_values) + (1 if items and items[-1].value is bm.UNSPECIFIED else 0)
    ctx = lambda: "dialect %s prefix limit %d (sender %d) %sitems %r pieces %r" % (
        offer[0].decode(), limit, send_limit,
        "" if change is None else "limit change %r " % (sorted(change.items()),), log, [len(p) for p in pieces][:16])
    # empty deliveries: dataReceived(b"") before a piece or after the last one - at the end of an expression, at the end of an
    # element inside a list, or inside an element (EMPTY_INSIDE_ELEMENT_P); the stream is the same, so is what must be received
    empty_gaps = {}
    if pieces and sim.draw_bool(EMPTY_DELIVERIES_P, "empty-deliveries"):
        tok = set(bm.token_ends(wire))
        offs = [0]
        for p in pieces:
            offs.append(offs[-1] + len(p))
        for _ in range(sim.draw_int(1, 3, "nempty")):
            g = sim.draw_int(0, len(pieces), "empty-gap")
            # (a hand-built last item may be incomplete: the end of the stream is then inside an element)
            where = "inside-element" if offs[g] and offs[g] not in tok else "expression-end" if offs[g] == 0 or offs[g] in ends else "element-end"
            if where == "inside-element" and not (EMPTY_INSIDE_ELEMENT_P > 0 and sim.draw_bool(EMPTY_INSIDE_ELEMENT_P, "empty-inside")):
                continue
            empty_gaps[g] = where
    raised = None

    def deliver(n):
        """One delivery of n bytes (0: an empty one); False once the receiver raised BananaError."""
        nonlocal raised
        sim.step(6000)
        try:
            if n:
                link.do("deliver", recv_name, n)
            else:
                receiver.dataReceived(b"")
        except Violation:
            raise
        except banana.BananaError as e:
            raised = e
            return False
        except Exception as e:
            sim.fail("unexpected-exception", ("decode:" if n else "decode-empty-delivery:") + type(e).__name__, lambda: "%r; %s" % (e, ctx()))
        sim.check("received-prefix", len(got) <= most and all(bm.same(a, b) for a, b in zip(got, all_values)), mode,
                  lambda: "receiver has %s, sent %s; %s" % ([show(x) for x in got], [show(x) for x in all_values], ctx()))
        return True

    def deliver_empty(g):
        sim.event("empty-delivery", empty_gaps[g])
        sim.fault("empty_delivery_" + empty_gaps[g].replace("-", "_"))
        return deliver(0)

    for pi, p in enumerate(pieces):
        if pi in empty_gaps and not deliver_empty(pi):
            break
        delivered_upto[0] += len(p)
        if not deliver(len(p)):
            break
        if pi == change_after:
            # the application changes the limit between two deliveries; the item in progress may be partly buffered
            change["fired"] = True
            change["got"] = len(got)
            sim.event("limit-change", "between", change["how"], change["new"])
            sim.fault("limit_change_between_deliveries")
            if delivered_upto[0] < len(wire) and delivered_upto[0] not in ends:
                sim.probe("limit_changed_with_item_partly_buffered")
            if change["how"] == "instance":
                receiver.setPrefixLimit(change["new"])
            else:
                banana.setPrefixLimit(change["new"])
    if raised is None and len(pieces) in empty_gaps:
        deliver_empty(len(pieces))
    receiver.hook = None

    # the reference decoder's verdict
    after_index = unsure_index = None
    if change is not None and change["fired"] and change["how"] == "instance":
        if change["where"] == "callback":
            after_index = change["at"]
        else:
            unsure_index = change["got"]
    expected, refused, unsure = bm.judge(items, limit, new_eff, after_index, unsure_index, len(got) if raised is not None else None)
    tag = mode
    if change is not None and change["fired"]:
        tag += "+limit-" + ("module" if change["how"] == "module" else "raised" if change["new"] > limit else "lowered") + "-" + change["where"]
        sim.probe("limit_" + ("module" if change["how"] == "module" else "raised" if change["new"] > limit else "lowered"))
        if change["coalesced"]:
            sim.probe("limit_changed_with_more_items_in_same_delivery")
        lo, hi = min(limit, change["new"]), max(limit, change["new"])
        first_after = change["at"] + 1 if change["where"] == "callback" else change["got"]
        if any(lo < it.need <= hi for it in items[first_after:]):
            sim.probe("item_between_old_and_new_limit_after_change")
    if unsure:
        sim.probe("no_verdict_item_in_progress_at_change")
    if refused is not None and refused is not bm.UNSPECIFIED and refused.kind == "real":
        sim.probe("real_expression_over_receiver_limit")
    if refused is bm.UNSPECIFIED:
        # the stream continues with an element on which there is no verdict: only what came before it is judged
        sim.probe("no_verdict_unusual_element_within_limit")
        sim.check("received-prefix", len(got) <= len(expected) + 1 and all(bm.same(a, b) for a, b in zip(got, expected)), tag,
                  lambda: "receiver has %s, sent %s + one unusual element; %s" % ([show(x) for x in got], [show(x) for x in expected], ctx()))
    elif refused is not None:
        sim.check("over-limit-decoded", raised is not None, refused.kind if change is None else refused.kind + "+" + tag,
                  lambda: "no BananaError; received %s; %s" % ([show(x) for x in got], ctx()))
        sim.check("received-prefix", len(got) <= len(expected) and all(bm.same(a, b) for a, b in zip(got, expected)), tag,
                  lambda: "receiver has %s, sent %s; %s" % ([show(x) for x in got], [show(x) for x in expected], ctx()))
        # everything sent before the bad element arrives unless the error came first in the same delivery: no verdict on that
    else:
        if raised is not None:
            crafted = items and items[-1].kind != "real" and len(got) >= len(items) - 1
            clause = "at-limit-refused" if crafted and change is None else "valid-stream-refused"
            sim.fail(clause, items[-1].kind if crafted and change is None else tag, lambda: "%r; %s" % (raised, ctx()))
        sim.check("expressions-equal", len(got) == len(expected) and all(bm.same(a, b) for a, b in zip(got, expected)), tag,
                  lambda: "received %s, sent %s; %s" % ([show(x) for x in got], [show(x) for x in expected], ctx()))
    other = got_s if c2s else got_c
    sim.check("sender-quiet", not other, mode, lambda: "the sending side received %r" % (other,))
    if change is not None and change["fired"] and change["how"] == "module":
        late_connection(sim, change["new"])
    if sim.draw_bool(FUNCTIONS_P, "free-functions"):
        free_functions(sim)
    sim.state((offer[0], limit, mode, getattr(refused, "kind", "open") if refused else len(expected), min(len(pieces), 6),
               None if change is None else (change["how"], change["where"], change["new"] > limit, change["fired"])))
    sim.nontrivial = len(pieces) > 1


# Sensitivity (tools/mutate.py C44 --sub src/twisted/spread/banana.py OLD NEW).  All caught (exit 1).
MUTANTS = [
    "dataReceived: incomplete prefix at the end of a delivery forgotten (self.buffer = b'' before return) : caught (negotiated:dialect, received-prefix)",
    "dataReceived: 'if len(num) > self.prefixLimit' -> '>=' : caught (at-limit-refused:prefix-at/string-at, valid-stream-refused)",
    "dataReceived: 'if pos > self.prefixLimit' -> '> self.prefixLimit + 8' : caught (over-limit-decoded:prefix-over-no-type)",
    "dataReceived LIST: 'if num > SIZE_LIMIT' -> '>=' : caught (at-limit-refused:list-at)",
    "dataReceived STRING: size check disabled : caught (over-limit-decoded:string-over)",
    "dataReceived STRING: 'if len(rest) >= num' -> '>' (string ending exactly at a delivery boundary) : caught (negotiated:dialect)",
    "dataReceived NEG: sign dropped : caught (received-prefix)",
    "_encode int: 'obj > self._largestLongInt' -> '>=' : caught (valid-value-refused:BananaError)",
    "setPrefixLimit: _smallestLongInt one lower : caught (outside-limit-encoded:int-under)",
    "_encode bytes: 'len(obj) > SIZE_LIMIT' -> '>=' : caught (valid-value-refused:BananaError)",
    "_encode list: size check disabled : caught (outside-limit-encoded:list)",
    "_encode float: NaN payload normalised : caught (received-prefix, floats bit for bit)",
    "_encode pb vocabulary: wrong symbol index : caught (received-prefix)",
    "dataReceived: self.prefixLimit read once per call into a local (both checks) : caught (valid-stream-refused:roundtrip+limit-raised-callback, "
    "over-limit-decoded:real+...+limit-lowered-callback, over-limit-decoded:prefix-over+decode-refusal+limit-lowered-callback)",
    "dataReceived: only the 'no type byte yet' check uses the hoisted local : caught (over-limit-decoded:prefix-over-no-type+decode-refusal+limit-lowered-callback, "
    "valid-stream-refused:...+limit-raised-callback)",
    "dataReceived: only the check after the type byte uses the hoisted local : caught (same clauses)",
    "dataReceived: 'len(num) > min(self.prefixLimit, _PREFIX_LIMIT)' (module-level call reaches live connections) : caught (valid-stream-refused:roundtrip+limit-module-callback/-between)",
    "dataReceived: 'len(num) > max(self.prefixLimit, _PREFIX_LIMIT)' : caught (over-limit-decoded:prefix-over)",
    "connectionMade: setPrefixLimit(64) instead of the module-level limit : caught (outside-limit-encoded:late-connection, valid-value-refused:late-connection)",
    "decode(): the finally no longer clears _i.buffer : caught (valid-stream-refused / at-limit-refused:function-after-failed-decode)",
    "dataReceived: an empty chunk drops the open lists (del self.listStack[:]) : caught (received-prefix:roundtrip / decode-refusal, empty delivery at an element end)",
    "module coder created with setPrefixLimit(65) : caught (outside-limit-encoded:int-over+function, int-under+function, over-limit-decoded:prefix-over+function)",
    "GENUINE DEFECT of the tree as first examined, REPAIRED in /repo 4eff4c5 (precondition behind FAILED_DECODE_IN_LIST_P, now 0.5; 0 only for dev-time comparison): "
    "banana.decode() reset _i.buffer but not _i.listStack after a failed call, so a stream "
    "refused or cut inside a list left the open list behind and the next decode(encode(x)) returned the stale list ([7, x]) or raised IndexError : "
    "C44:expressions-equal:function-after-failed-decode, C44:valid-stream-refused:function-after-failed-decode, C44:at-limit-refused:function-after-failed-decode "
    "(replays/C44_40476159_42.json, replays/C44_86766663_316.json, knob 0.5); repair: 'del _i.listStack[:]' in decode()'s finally : check passes with the knob at 0.5",
    "GENUINE DEFECT of the tree as first examined, REPAIRED in /repo a57c4fd (precondition behind EMPTY_INSIDE_ELEMENT_P, now 0.5; 0 only for dev-time comparison): "
    "Banana.dataReceived(b'') while an element is incomplete failed 'assert self.buffer != buffer' : "
    "C44:unexpected-exception:decode-empty-delivery:AssertionError (replays/C44_12099591_35.json, knob 0.5); repair: 'if not chunk: return' at the top of "
    "dataReceived : check passes with the knob at 0.5",
]
