"""C44 — Banana round-trips and enforces its limits.

Engine E3 (net).  A real Banana client and a real Banana server are joined by a
net.Link and negotiate their dialect over it (the server offers [pb, none] or
[none, pb], so both 'with' and 'without the pb vocabulary' occur); both then get
a tape-chosen prefix limit (64, 10, 5 or 3 base-128 digits).

* "roundtrip" runs: one side sends 1..4 expressions with sendEncoded: nested
  lists/tuples (depth <= 6) of integers at the boundaries of the INT/LONGINT
  ranges and of the prefix limit, floats (NaN/inf/-0.0/random bit patterns),
  byte strings (lengths around 127/128, 16383/16384, rarely SIZE_LIMIT, pb
  vocabulary words), mixed with values outside the limits (an integer needing
  one more prefix digit, a string / list one longer than SIZE_LIMIT, possibly
  nested).  The bytes are delivered in tape-chosen pieces.
* "decode-refusal" runs: after 0..2 real expressions the sending transport is
  handed a hand-built element with an over-long prefix, a LIST or STRING length
  above SIZE_LIMIT - or exactly AT the limit, which must be accepted.

Oracle: received expressions == sent ones (tuples as lists, floats bit for bit,
no int/float/bool mixing), in order; an out-of-limit value raises BananaError
from sendEncoded and writes nothing; an over-limit prefix/length raises
BananaError from dataReceived (by the end of the stream) and nothing after it is
delivered; an at-limit prefix/length is accepted.
"""
import struct

from twisted.spread import banana

from detsim import net
from detsim.sim import Violation
from models import banana as bm

ID = "C44"
ENGINE = "net"
LEVEL = "exploration"
TECHNIQUE = ("deterministic simulation: seeded expression grammar with boundary values sent between two real Banana "
             "instances (dialect negotiated over the link) under seeded segmentation, plus hand-built over-limit elements")
QUICK_RUNS = 50000
TWIN_P = 0.08   # this share of the runs drives two independent instances of the scenario one after the other (detsim.runner._run_scenario)
BATCH = 100
COMPONENTS = {
    "real": ["twisted.spread.banana.Banana (connectionMade negotiation, sendEncoded/_encode, dataReceived, setPrefixLimit)",
             "twisted.spread.banana.int2b128/b1282int"],
    "stub": ["TCP transport and delivery segmentation (detsim.net.Link / cut)", "expressionReceived recorder"],
}
RULE = ("run = dialect negotiation over the link, then 1..4 expressions (some outside the limits) sent with sendEncoded, or "
        "real expressions followed by a hand-built over-limit / at-limit element, delivered in tape-chosen pieces; "
        "non-trivial = the payload stream was cut at least once")
ASSUMPTIONS = [
    "prefix limits below 3 digits are not used (string/list lengths up to SIZE_LIMIT need 3 digits)",
    "bool values are not sent (bool is an int subclass; the statement speaks of integers)",
    "the transport stops delivering after dataReceived raised",
]

VOCAB_WORDS = [b"None", b"list", b"tuple", b"message", b"answer", b"dictionary", b"uncache", b"class"]


class B(banana.Banana):
    def __init__(self, isClient, got):
        banana.Banana.__init__(self, isClient)
        self.got = got

    def expressionReceived(self, obj):
        self.got.append(obj)


def gen_int(sim, limit):
    top = 2 ** (7 * limit) - 1
    k = sim.draw_weighted([("small", 4), ("edge", 6), ("big", 3)], "intkind")
    if k == "small":
        return sim.draw_int(-300, 300, "int")
    if k == "edge":
        edges = [0, 1, -1, 127, 128, -127, -128, 16383, 16384, 2 ** 31 - 1, 2 ** 31, -2 ** 31, -2 ** 31 - 1,
                 top, -top, top - 1, -(top - 1), 2 ** (7 * (limit - 1)), -2 ** (7 * (limit - 1))]
        return sim.draw_choice([v for v in edges if abs(v) <= top], "edge")
    nbits = sim.draw_int(8, 7 * limit, "nbits")
    v = int.from_bytes(sim.draw_blob((nbits + 7) // 8), "big") & ((1 << nbits) - 1)
    return -v if sim.draw_bool(0.5, "neg") else v


def gen_float(sim):
    if sim.draw_bool(0.5, "special"):
        return sim.draw_choice([0.0, -0.0, float("nan"), float("inf"), float("-inf"), 1.5, -1e308, 5e-324,
                                struct.unpack("!d", b"\x7f\xf8\x00\x00\x00\x00\x00\x01")[0],
                                struct.unpack("!d", b"\xff\xf0\x00\x00\x00\x00\x00\x01")[0]], "fspecial")
    return struct.unpack("!d", sim.draw_blob(8))[0]


def gen_bytes(sim, budget):
    k = sim.draw_weighted([("short", 8), ("vocab", 3), ("b128", 3), ("long", 2), ("limit", 1 if budget[0] > 0 else 0)], "strkind")
    if k == "short":
        return sim.draw_bytes(sim.draw_int(0, 12, "slen"), b"ab\x00\x80\xff\x82")
    if k == "vocab":
        return sim.draw_choice(VOCAB_WORDS, "word")
    if k == "b128":
        return sim.draw_blob(sim.draw_choice([127, 128, 129, 16383, 16384], "slen"))
    if k == "long":
        return sim.draw_blob(sim.draw_int(13, 3000, "slen"))
    budget[0] -= 1
    return sim.draw_blob(bm.SIZE_LIMIT - sim.draw_choice([0, 1], "below"))


def gen_expr(sim, limit, depth, budget):
    kinds = [("int", 4), ("bytes", 3), ("float", 2)]
    if depth < 6:
        kinds.append(("list", 5 if depth == 0 else 2))
    k = sim.draw_weighted(kinds, "kind")
    if k == "int":
        return gen_int(sim, limit)
    if k == "bytes":
        return gen_bytes(sim, budget)
    if k == "float":
        return gen_float(sim)
    items = [gen_expr(sim, limit, depth + 1, budget) for _ in range(sim.draw_int(0, 4, "nitems"))]
    return tuple(items) if sim.draw_bool(0.3, "tuple") else items


def gen_outside(sim, limit):
    """A value outside the limits, possibly nested in a list."""
    top = 2 ** (7 * limit)
    k = sim.draw_weighted([("int-over", 4), ("int-under", 4), ("int-far", 2), ("string", 1), ("list", 1)], "outside")
    if k == "int-over":
        v = top
    elif k == "int-under":
        v = -top
    elif k == "int-far":
        v = (top << sim.draw_int(1, 40, "shift")) * sim.draw_choice([1, -1], "sign")
    elif k == "string":
        v = bytes(bm.SIZE_LIMIT + 1)
    else:
        v = [0] * (bm.SIZE_LIMIT + 1)
    for _ in range(sim.draw_int(0, 2, "nest")):
        v = [sim.draw_int(0, 9, "sibling"), v] if sim.draw_bool(0.5, "before") else [v, b"x"]
    return k, v


def show(obj, depth=0):
    if isinstance(obj, (list, tuple)):
        if len(obj) > 8:
            return "<%s of %d>" % (type(obj).__name__, len(obj))
        s = ", ".join(show(x, depth + 1) for x in obj)
        return "[%s]" % s if isinstance(obj, list) else "(%s)" % s
    if isinstance(obj, bytes) and len(obj) > 16:
        return "<%d bytes>" % len(obj)
    if isinstance(obj, float):
        return "float:" + struct.pack("!d", obj).hex()
    if isinstance(obj, int) and abs(obj) > 10 ** 12:
        return "int(%d bits,%s)" % (obj.bit_length(), "-" if obj < 0 else "+")
    return repr(obj)


def run(sim):
    got_c, got_s = [], []
    client, server = B(1, got_c), B(0, got_s)
    offer = sim.draw_choice([[b"pb", b"none"], [b"none", b"pb"]], "offer")
    server.knownDialects = offer
    link = net.Link(sim, client, server)
    link.connect()
    with sim.guard("negotiation-raised"):
        link.run()
    sim.check("negotiated", client.currentDialect == offer[0] and server.currentDialect == offer[0] and not got_c and not got_s,
              "dialect", lambda: "offer %r: client %r server %r, expressions %r %r" % (offer, client.currentDialect, server.currentDialect, got_c, got_s))
    limit = sim.draw_choice([64, 10, 5, 3], "prefixlimit")
    client.setPrefixLimit(limit)
    server.setPrefixLimit(limit)
    c2s = sim.draw_bool(0.5, "server-sends")      # True: the server is the sender
    sender, recv_name, got = (server, "A", got_c) if c2s else (client, "B", got_s)
    st = link.b if c2s else link.a          # sender's transport
    mode = sim.draw_weighted([("roundtrip", 6), ("decode-refusal", 4)], "mode")
    sim.config = {"dialect": offer[0].decode(), "prefix_limit": limit, "sender": "server" if c2s else "client", "mode": mode}
    del st.written[:]
    expected = []
    log = []
    budget = [1]
    ends = []
    refusal = None          # (kind, must_raise)

    def send_real():
        e = gen_expr(sim, limit, 0, budget)
        log.append(show(e))
        sim.event("send", show(e))
        with sim.guard("valid-value-refused"):
            sender.sendEncoded(e)
        expected.append(bm.normalise(e))
        ends.append(len(st.written))

    if mode == "roundtrip":
        for _ in range(sim.draw_int(1, 4, "nexpr")):
            if sim.draw_bool(0.25, "outside"):
                kind, v = gen_outside(sim, limit)
                before = len(st.written)
                log.append("OUTSIDE:" + kind)
                sim.event("send-outside", kind, show(v))
                sim.probe("outside_" + kind)
                raised = None
                try:
                    sender.sendEncoded(v)
                except banana.BananaError as e:
                    raised = e
                except Violation:
                    raise
                except Exception as e:
                    sim.fail("unexpected-exception", "encode:" + type(e).__name__, "%r for %s" % (e, show(v)))
                sim.check("outside-limit-encoded", raised is not None, kind,
                          lambda: "sendEncoded accepted %s (prefix limit %d) and wrote %d bytes" % (show(v), limit, len(st.written) - before))
                sim.check("refusal-wrote-bytes", len(st.written) == before, kind,
                          lambda: "sendEncoded raised but wrote %d bytes" % (len(st.written) - before))
            else:
                send_real()
    else:
        for _ in range(sim.draw_int(0, 2, "nbefore")):
            send_real()
        kind = sim.draw_weighted([("prefix-over", 4), ("prefix-at", 3), ("prefix-over-no-type", 2), ("list-over", 2), ("list-at", 1),
                                  ("string-over", 2), ("string-at", 1)], "crafted")
        wrap = sim.draw_bool(0.3, "inside-list")
        raw = bm.b128(2) + bm.LIST + bm.b128(7) + bm.INT if wrap else b""
        digit = bytes([sim.draw_choice([1, 0x7F, 0, 0x40], "digit")])
        if kind == "prefix-over":
            raw += digit * (limit + sim.draw_choice([1, 2, 10], "extra")) + sim.draw_choice([bm.INT, bm.LONGINT, bm.NEG, bm.LONGNEG, bm.STRING, bm.LIST], "type")
            refusal = (kind, True)
        elif kind == "prefix-over-no-type":
            raw += digit * (limit + sim.draw_choice([1, 5, 40], "extra"))
            refusal = (kind, True)
        elif kind == "prefix-at":
            # exactly `limit` digits: the largest prefix that must still be accepted
            digits = digit * (limit - 1) + b"\x01"
            value = sum(d << (7 * i) for i, d in enumerate(digits))
            neg = sim.draw_bool(0.5, "neg")
            raw += digits + (bm.LONGNEG if neg else bm.LONGINT)
            refusal = (kind, False)
            expected.append([7, -value if neg else value] if wrap else (-value if neg else value))
        elif kind == "list-over":
            raw += bm.b128(bm.SIZE_LIMIT + sim.draw_choice([1, 2, 1000], "over")) + bm.LIST
            refusal = (kind, True)
        elif kind == "list-at":
            raw += bm.b128(bm.SIZE_LIMIT) + bm.LIST + bm.b128(1) + bm.INT
            refusal = (kind, False)
        elif kind == "string-over":
            raw += bm.b128(bm.SIZE_LIMIT + sim.draw_choice([1, 2, 1000], "over")) + bm.STRING + b"abc"
            refusal = (kind, True)
        else:
            raw += bm.b128(bm.SIZE_LIMIT) + bm.STRING + b"abc"
            refusal = (kind, False)
        log.append("CRAFTED:%s%s" % (kind, "(in list)" if wrap else ""))
        sim.event("crafted", kind, raw)
        sim.probe("crafted_" + kind)
        st.write(raw)
        ends.append(len(st.written))

    # deliver what the sender wrote
    side = "B" if c2s else "A"              # name of the SENDER's transport
    if st.out:
        link.do("xmit", side)
    wire = bytes(link.flight[recv_name])
    styles = None if len(wire) < 100000 else sim.draw_choice(["whole", "one", "few", "edges"], "bigcut")
    pieces = net.cut(sim, wire, styles, ends)
    ctx = lambda: "dialect %s prefix limit %d items %r pieces %r" % (offer[0].decode(), limit, log, [len(p) for p in pieces][:16])
    raised = None
    for p in pieces:
        sim.step(6000)
        try:
            link.do("deliver", recv_name, len(p))
        except Violation:
            raise
        except banana.BananaError as e:
            raised = e
            break
        except Exception as e:
            sim.fail("unexpected-exception", "decode:" + type(e).__name__, lambda: "%r; %s" % (e, ctx()))
        sim.check("received-prefix", len(got) <= len(expected) and all(bm.same(a, b) for a, b in zip(got, expected)), mode,
                  lambda: "receiver has %s, sent %s; %s" % ([show(x) for x in got], [show(x) for x in expected], ctx()))
    if refusal is not None and refusal[1]:
        sim.check("over-limit-decoded", raised is not None, refusal[0], lambda: "no BananaError; received %s; %s" % ([show(x) for x in got], ctx()))
        sim.check("received-prefix", len(got) <= len(expected) and all(bm.same(a, b) for a, b in zip(got, expected)), mode,
                  lambda: "receiver has %s, sent %s; %s" % ([show(x) for x in got], [show(x) for x in expected], ctx()))
        # everything sent before the bad element arrives unless the error came first in the same delivery: no verdict on that
    else:
        if raised is not None:
            clause = "at-limit-refused" if refusal is not None else "valid-stream-refused"
            sim.fail(clause, refusal[0] if refusal else mode, lambda: "%r; %s" % (raised, ctx()))
        sim.check("expressions-equal", len(got) == len(expected) and all(bm.same(a, b) for a, b in zip(got, expected)), mode,
                  lambda: "received %s, sent %s; %s" % ([show(x) for x in got], [show(x) for x in expected], ctx()))
    other = got_s if c2s else got_c
    sim.check("sender-quiet", not other, mode, lambda: "the sending side received %r" % (other,))
    sim.state((offer[0], limit, mode, refusal[0] if refusal else len(expected), min(len(pieces), 6)))
    sim.nontrivial = len(pieces) > 1


# Sensitivity (tools/mutate.py C44 --sub src/twisted/spread/banana.py OLD NEW).  All caught (exit 1).
MUTANTS = [
    "dataReceived: incomplete prefix at the end of a delivery forgotten (self.buffer = b'' before return) : caught (negotiated:dialect, received-prefix)",
    "dataReceived: 'if len(num) > self.prefixLimit' -> '>=' : caught (at-limit-refused:prefix-at/string-at, valid-stream-refused)",
    "dataReceived: 'if pos > self.prefixLimit' -> '> self.prefixLimit + 8' : caught (over-limit-decoded:prefix-over-no-type)",
    "dataReceived LIST: 'if num > SIZE_LIMIT' -> '>=' : caught (at-limit-refused:list-at)",
    "dataReceived STRING: size check disabled : caught (over-limit-decoded:string-over)",
    "dataReceived STRING: 'if len(rest) >= num' -> '>' (string ending exactly at a delivery boundary) : caught (negotiated:dialect)",
    "dataReceived NEG: sign dropped : caught (received-prefix)",
    "_encode int: 'obj > self._largestLongInt' -> '>=' : caught (valid-value-refused:BananaError)",
    "setPrefixLimit: _smallestLongInt one lower : caught (outside-limit-encoded:int-under)",
    "_encode bytes: 'len(obj) > SIZE_LIMIT' -> '>=' : caught (valid-value-refused:BananaError)",
    "_encode list: size check disabled : caught (outside-limit-encoded:list)",
    "_encode float: NaN payload normalised : caught (received-prefix, floats bit for bit)",
    "_encode pb vocabulary: wrong symbol index : caught (received-prefix)",
]
