"""C10 — LoopingCall keeps cadence without overlap and counts skipped intervals.

Engine E2 (clock).  One real LoopingCall (plain or withCount) is driven by one
of three clock families chosen by the tape:

  sim-exact   sim.clock (SimClock) run_next/advance: every timer runs exactly at
              its own time;
  sim-jump    sim.clock with jump() as well: time moves first, timers observe
              the overshoot (clock-jump fault);
  task-clock  twisted.internet.task.Clock.advance with sub-interval steps and
              jumps spanning many intervals (always overshoots).

The looped function returns, raises, returns an already fired Deferred, returns
a Deferred fired by a timer after a latency, or one fired by hand / never; the
tape also issues stop() (from outside and from inside the function), reset()
and restarts.

Three further families (per-run knobs, each off in a third of the runs):

  failures outside Exception   what the function raises, and what its Deferred fails with, is drawn also from
              BaseException subclasses that are NOT Exception subclasses (a harness-defined Stop, KeyboardInterrupt,
              SystemExit, asyncio.CancelledError): "raises" in the statement is unrestricted, such a failure ends the
              loop and fires start()'s Deferred like any other.  Every call into the code under test sits in an
              `Escape` block: an exception of ANY type escaping from it is the violation `no-raise`.
  near-boundary amounts   clock steps and Deferred latencies are also aimed at the model's grid: they end
              2**-k intervals (k in 3..16) before or after - or exactly on - one of the next boundaries, so calls
              complete a hair before / after a boundary and not only at the coarse fractions of the tables below.

  function takes time   the looped function blocks: the clock moves from inside the call (by a table or near-boundary
              amount, within one interval or across one / several boundaries) before it returns, raises, stops the loop or
              hands out its Deferred - also inside start() for the immediate call.  The call is *entered* at one reading
              (where its count is judged: boundaries elapsed up to the invocation) and *completes* at a later one (from
              which the next boundary is taken; a latency starts there).

Oracle: a reference model written from the property statement in exact
rational arithmetic (fractions.Fraction): the boundary grid start + k*interval,
"first boundary strictly after the completion of the previous call", the
boundary count for withCount (also after reset() moved the grid, wherever nothing
was owed at the reset - see Model.reset), and the one-shot result of start()'s Deferred.
The LoopingCall receives a recording wrapper around the clock, so every timer
it schedules is compared with the model on the DelayedCall's *scheduled* time
(independent of how far a jump overshoots).
"""
import asyncio
import traceback
from fractions import Fraction

from twisted.internet import defer, task
from twisted.python.failure import Failure

from detsim.sim import StepLimit, Violation

ID = "C10"
ENGINE = "clock"
LEVEL = "exploration"
TECHNIQUE = ("deterministic simulation: seeded clock advance/jump patterns, call latencies, failures, stop/reset points "
             "on a real LoopingCall vs an exact-arithmetic boundary-grid model")
QUICK_RUNS = 120000
TWIN_P = 0.08   # this share of the runs drives two independent instances of the scenario one after the other (detsim.runner._run_scenario)
USES_DEPTH = True   # thorough tier: history length bound scales with sim.depth (1..3) beyond the quick tier\'s run indices
BATCH = 300
RUN_WALL_LIMIT_S = 60   # the machine is shared; a run itself takes about a millisecond
COMPONENTS = {"real": ["twisted.internet.task.LoopingCall (start/stop/reset/__call__/_scheduleFrom/withCount)",
                       "twisted.internet.task.Clock (jump family)", "twisted.internet.defer.Deferred/maybeDeferred"],
              "stub": ["time source: detsim SimClock (exact and jump modes) or task.Clock, advanced by the tape"]}
RULE = ("run = one LoopingCall (dyadic interval, now flag, plain/withCount, clock family drawn) driven by 5..40 tape-chosen operations "
        "(clock step of a sub-interval / exact-interval / many-interval amount, run next timer, fire or fail the outstanding Deferred, stop, reset, restart - from the top level or from inside the callback of the previous start()'s Deferred); "
        "each call's behaviour (return, raise, fired Deferred, Deferred with timer latency, hand-fired Deferred, stop from inside) is drawn when it happens; "
        "the exception a call raises or its Deferred fails with is a ScriptedError or (weight knob, off in 1/3 of the runs) a BaseException subclass outside "
        "Exception: a harness-defined Stop, KeyboardInterrupt, SystemExit, asyncio.CancelledError - every call into the LoopingCall / the clock sits in an "
        "Escape block, so an exception of any type that comes out of it is the violation no-raise; "
        "clock steps and latencies come from tables of coarse multiples of the interval or (weight knob, off in 1/3 of the runs) are aimed at the grid: they end "
        "2**-k intervals (k in 3..16) before / after, or exactly on, one of the next four boundaries, so calls complete (Deferred fired, or late synchronous call "
        "after a jump) a hair before or after a boundary; "
        "the function may also take time synchronously (weight knob, off in 1/3 of the runs): the clock is moved from inside the call by a table / near-boundary "
        "amount - within an interval or across one or several boundaries, also inside start() - before the drawn behaviour happens (stop-inside before or after "
        "the wait); the count is judged at the reading on entry, the completion and the next boundary at the reading on return; "
        "on withCount loops every count is compared with the model, before and after reset() (reset strictly between two boundaries, on a boundary, before the first call, "
        "after a late call, after a slow Deferred, several in a row); "
        "non-trivial = at least 2 calls AND (a completion off the boundary grid, a clock overshoot, a stop or a reset occurred)")
ASSUMPTIONS = ["interval > 0 and all times are dyadic rationals (exact in binary floating point), as in the statement's quantifier",
               "'raises' / 'a failure' in the statement are unrestricted: a KeyboardInterrupt / SystemExit / asyncio.CancelledError / application-defined "
               "BaseException raised by the looped function, or carried by the failure of the Deferred it returned, ends the loop and fires start()'s Deferred "
               "with that failure like any other exception, and does not come out of start() or of the clock (the unchanged code routes every outcome of the "
               "function through maybeDeferred, which has a single `except BaseException`); GeneratorExit is never used",
               "near-boundary amounts stay at least 2**-16 interval away from a boundary (or exactly on it) and all times stay below 2**15 s, so every "
               "quantity the LoopingCall computes is exact in a double; the float-absorption guard of _scheduleFrom is outside the quantifier",
               "start() is not called again while a previous call is in progress or its Deferred is still outstanding, i.e. not from inside the looped "
               "function after a stop() there and not between a stop() and the firing of the previous start()'s Deferred (the statement speaks about one "
               "start(); the unchanged code then keeps two timers and drops the first start()'s Deferred - observation, no verdict)",
               "a function that takes time synchronously moves the clock itself while no timer is pending (the LoopingCall has none during a call); its count "
               "is 'boundaries elapsed' as of the invocation (reading on entry), boundaries that go by while it runs are reported by the next call",
               "withCount and reset(): until the first effective reset() the sum clause is checked as a running total from start(); once reset() has moved the "
               "boundary grid it is checked per call on the grid in force (count == boundaries in (previous invocation, this invocation]); the first call "
               "after a reset gets a verdict (count == boundaries of the NEW grid elapsed since the reset) only if nothing was owed at the reset, i.e. no "
               "boundary of the old grid had gone by unreported AND less than one interval had passed since the previous invocation (or start) - e.g. several "
               "resets in a row that together postpone the call by more than an interval, or a reset after a slow Deferred spanned boundaries, leave it open "
               "whether the owed iterations are dropped or carried, so only 'count >= boundaries of the new grid elapsed' is demanded there",
               "a reset() issued while a call is in progress or its Deferred is unfired has nothing to skip and leaves the grid alone (same reading as the timer clauses)",
               "restart (start() after stop()/failure) is exercised on plain LoopingCalls only: a withCount LoopingCall keeps _realLastTime across stop(), "
               "so a restart within one interval of the last call computes count 0 and skips the immediate call; the statement speaks about one start()"]

INTERVALS = [1.0, 0.5, 2.0, 0.25, 1.5, 0.75, 3.0, 0.125, 5.0]
# clock step / latency amounts, as multiples of the interval (0 index = exactly one interval)
STEP_MULT = [1.0, 0.25, 0.5, 0.75, 1.25, 2.0, 3.5, 10.25, 0.125, 4.0, 17.0]
LAT_MULT = [0.5, 1.0, 0.25, 1.75, 2.0, 3.25, 0.125]


# distance from a boundary of the near-boundary amounts: 2**-k intervals (all times stay dyadic and far inside 53 bits)
FINE_EXP = [7, 3, 10, 5, 8, 16, 6, 12, 4, 9]

TAG = "c10"     # first argument of every exception the scenario creates (a watchdog of the runner or a real Ctrl-C has none)


class ScriptedError(Exception):
    pass


class Stop(BaseException):
    """Harness-defined exception deriving from BaseException but NOT from Exception (an application-level "stop" class)."""


# exception classes outside the Exception hierarchy that a looped function (or the Deferred it returned) may fail with
BARE = (Stop, KeyboardInterrupt, SystemExit, asyncio.CancelledError)


def _ours(e):
    return bool(e.args) and e.args[0] == TAG


class Escape:
    """`with Escape(sim, clause, witness):` around EVERY call into the code under test: an exception that escapes from it -
    including a BaseException that is not an Exception, e.g. a SystemExit or KeyboardInterrupt of the looped function that
    should have gone into start()'s Deferred - is the violation `clause` (sim.guard lets those pass, and a leaked SystemExit
    would silently end the worker process)."""

    def __init__(self, sim, clause, witness):
        self.sim, self.clause, self.witness = sim, clause, witness

    def __enter__(self):
        return self

    def __exit__(self, et, ev, tb):
        if et is None or issubclass(et, (Violation, StepLimit)):
            return False
        if not issubclass(et, Exception) and not _ours(ev):
            return False            # the runner's watchdogs
        where = traceback.extract_tb(tb)[-1]
        self.sim.check(self.clause, False, "%s:%s" % (self.witness, et.__name__),
                       "%s: %s escaped from the code under test (at %s:%s %s)"
                       % (et.__name__, str(ev)[:200], where.filename.split("/")[-1], where.lineno, where.name))
        return False


class Model:
    """Reference model (exact arithmetic).  Knows nothing about timers: it is
    told when a call completes and answers when the next call is due."""

    def __init__(self):
        self.running = False
        self.origin = None      # Fraction: start of the boundary grid
        self.I = None           # Fraction interval
        self.outstanding = False  # a call's Deferred is unfired
        self.next_due = None    # Fraction or None
        self.need_sched = False
        self.immediate = False
        self.expected = []      # expected results of start() Deferreds, in order
        self.grid_stable = True
        self.now_flag = False
        self.count_sum = 0
        # withCount after reset(): `count_base` is the instant from which the boundaries reported by the NEXT call are
        # counted on the current grid (the previous invocation, the start, or a reset that left nothing owed); None =
        # no verdict for the next call (the statement does not say what becomes of boundaries that were owed at a reset).
        self.count_base = None
        self.last_inv = None    # Fraction: time of the last invocation (start time before the first one)
        self.reset_since_call = False

    def start(self, t, interval, now):
        self.running = True
        self.origin = Fraction(t)
        self.I = Fraction(interval)
        self.now_flag = now
        self.count_base = self.origin
        self.last_inv = self.origin
        self.reset_since_call = False
        if now:
            self.immediate = True
        else:
            self.next_due = self.origin + self.I
            self.need_sched = True

    def boundary_after(self, t):
        """First origin + k*I (k integer >= 1) strictly after t."""
        k = (Fraction(t) - self.origin) // self.I + 1
        if k < 1:
            k = 1
        return self.origin + k * self.I

    def boundaries_elapsed(self, t):
        """Number of boundaries origin + k*I, k >= 1, that are <= t."""
        n = (Fraction(t) - self.origin) // self.I   # exact floor
        return int(n) if n > 0 else 0

    def complete(self, t, ok, exc=None):
        self.outstanding = False
        if not ok:
            self.running = False
            self.expected.append(("fail", exc))
        elif self.running:
            self.next_due = self.boundary_after(t)
            self.need_sched = True
        else:
            self.expected.append(("lc",))

    def stop(self):
        self.running = False
        if self.next_due is not None:
            self.next_due = None
            self.need_sched = False
            self.expected.append(("lc",))
        # else: a call is in progress / outstanding; start()'s Deferred fires on its completion

    def boundaries_between(self, t0, t1):
        """Number of boundaries of the current grid in (t0, t1]."""
        return self.boundaries_elapsed(t1) - self.boundaries_elapsed(t0)

    def reset(self, t):
        """Returns None when the reset has no effect (a call is in progress / its Deferred unfired: nothing to skip,
        the grid stays), else True/False = nothing / something was owed when the grid moved."""
        if self.next_due is None:
            return None
        t = Fraction(t)
        # Nothing is owed when (a) no boundary of the grid in force went by since the instant counting starts from and
        # (b) less than one interval of time passed since the function was last invoked (or the loop started): then
        # "boundaries elapsed", "calls that should have occurred since it was last invoked" and plain elapsed time
        # all say zero, and whatever reset() does with what is owed, there is nothing for it to keep or to drop.
        clean = (self.count_base is not None and self.boundaries_between(self.count_base, t) == 0
                 and t - self.last_inv < self.I)
        self.origin = t
        self.next_due = self.origin + self.I
        self.need_sched = True
        self.grid_stable = False
        self.count_base = t if clean else None
        self.reset_since_call = True
        return clean

    def counted_call(self, t):
        """A withCount invocation at time t: the count the statement demands, or None (no verdict)."""
        t = Fraction(t)
        want = None if self.count_base is None else self.boundaries_between(self.count_base, t)
        floor_ = self.boundaries_elapsed(t) if self.reset_since_call else None
        self.count_base = t
        self.last_inv = t
        self.reset_since_call = False
        return want, floor_


class RecordingClock:
    """IReactorTime facade handed to the LoopingCall only: every callLater on it
    is a LoopingCall scheduling decision."""

    def __init__(self, inner, on_sched):
        self.inner = inner
        self.on_sched = on_sched

    def seconds(self):
        return self.inner.seconds()

    def callLater(self, delay, f, *a, **kw):
        dc = self.inner.callLater(delay, f, *a, **kw)
        self.on_sched(dc)
        return dc

    def getDelayedCalls(self):
        return self.inner.getDelayedCalls()


def run(sim):
    family = sim.draw_choice(["sim-exact", "sim-jump", "task-clock"], "family")
    interval = sim.draw_choice(INTERVALS, "interval")
    now_flag = sim.draw_bool(0.5, "now")
    counted = sim.draw_bool(0.5, "withCount")
    offset = sim.draw_int(0, 40, "offset") / 8.0
    nops = sim.draw_int(5, 40 * sim.depth, "nops")
    # weight of the exception classes outside the Exception hierarchy among the failures of the looped function; 0 = none
    bare_w = sim.draw_choice([0, 1, 3], "bare_exception_weight")
    # weight of the near-boundary amounts among clock steps and latencies (against 6 for the tables); 0 = none
    fine_w = sim.draw_choice([0, 1, 3], "near_boundary_weight")
    # weight of "the function takes time synchronously" (the clock moves while it runs) against 6 for "takes no time"; 0 = never
    block_w = sim.draw_choice([0, 1, 3], "blocking_call_weight")
    sim.config = {"family": family, "interval": interval, "now": now_flag, "withCount": counted, "offset": offset, "nops": nops,
                  "bare_exception_weight": bare_w, "near_boundary_weight": fine_w, "blocking_call_weight": block_w}

    if family == "task-clock":
        clk = task.Clock()
        clk.advance(offset)
    else:
        clk = sim.clock
        clk.advance(offset)
    t_begin = clk.seconds()

    m = Model()
    st = {"exact": True, "manual": None, "calls": 0, "offgrid": 0, "overshoot": 0, "stops": 0, "resets": 0, "restarts": 0,
          "interval": interval}
    results = []     # observed results of start() Deferreds
    scheduled = []   # DelayedCalls created by the LoopingCall

    def on_sched(dc):
        due = Fraction(dc.getTime())
        sim.event("sched", float(due))
        sim.check("schedule-expected", m.need_sched and m.next_due is not None, "timer",
                  "LoopingCall scheduled a timer for %s but the model expects none (running=%s outstanding=%s)" % (float(due), m.running, m.outstanding))
        sim.check("schedule-on-boundary", due == m.next_due, "timer",
                  lambda: "timer scheduled for t=%s; first boundary strictly after the previous completion is t=%s (origin %s interval %s)"
                  % (float(due), float(m.next_due), float(m.origin), float(m.I)))
        m.need_sched = False
        scheduled.append(dc)

    rclk = RecordingClock(clk, on_sched)

    def new_failure(tag):
        """The exception a call fails with: a ScriptedError, or (knob) one of the classes outside the Exception hierarchy."""
        cls = ScriptedError
        if bare_w:
            cls = sim.draw_weighted([(ScriptedError, 4)] + [(c, bare_w) for c in BARE], "failure_class")
        if cls is not ScriptedError:
            sim.fault("failure_outside_Exception_hierarchy")
        sim.event("failure-class", cls.__name__)
        return cls(TAG, tag)

    # one draw decides between the entries of a table (weight 6 each) and a near-boundary amount (None; weight fine_w per entry)
    step_table = [(x, 6) for x in STEP_MULT] + [(None, fine_w * len(STEP_MULT))]
    lat_table = [(x, 6) for x in LAT_MULT] + [(None, fine_w * len(LAT_MULT))]

    def amount(table, label):
        """A clock step / latency in seconds: a multiple of the interval from `table`, or (knob) an amount that ends 2**-k
        intervals before / after - or exactly on - one of the next boundaries of the model's grid."""
        mult = sim.draw_weighted(table, label)
        if mult is not None:
            return mult * st["interval"]
        t = Fraction(clk.seconds())
        target = m.boundary_after(t) + sim.draw_int(0, 3, label + "_boundaries_ahead") * m.I
        side = sim.draw_weighted([("before", 4), ("after", 3), ("on", 1)], label + "_side")
        eps = m.I / 2 ** sim.draw_choice(FINE_EXP, label + "_exponent")
        if side == "before" and target - eps > t:
            target -= eps
        elif side == "after":
            target += eps
        sim.probe("near_boundary_" + label)
        return float(target - t)

    def note_completion(t):
        """Counters only: where on the grid a call completed."""
        off = (Fraction(t) - m.origin) % m.I
        if off != 0:
            st["offgrid"] += 1
            sim.probe("completion_off_grid")
            if m.I - off < m.I / 64:
                sim.probe("completion_less_than_64th_interval_before_boundary")
            elif off < m.I / 64:
                sim.probe("completion_less_than_64th_interval_after_boundary")

    def pass_time(dt):
        """Time passes while the looped function runs (it blocks): the clock moves from inside the call, as in Twisted's own
        test_callbackTimeSkips.  No timer is pending at that point (the LoopingCall has none during a call, the scenario's
        latency timers exist only while a Deferred is outstanding), so this is a pure move of the clock on either clock class."""
        if family == "task-clock":
            clk.advance(dt)
        else:
            clk.jump(dt)

    def advance_exact(dt):
        """SimClock.advance(dt) - every timer runs exactly at its own time - for functions that may move the clock themselves:
        it stops at now + dt unless a call has already carried the clock beyond that (never moves time backwards)."""
        target = clk.seconds() + dt
        while True:
            nxt = clk.next_time()
            if nxt is None or nxt > target:
                break
            clk.run_next()
        rest = target - clk.seconds()
        if rest > 0:
            clk.advance(rest)

    def fire(d, ok):
        """Complete a call's Deferred (from a latency timer or by hand)."""
        t = clk.seconds()
        sim.event("fire", t, "ok" if ok else "fail")
        exc = None if ok else new_failure("deferred")
        if st["manual"] is d:
            st["manual"] = None
        note_completion(t)
        m.complete(t, ok, exc)
        if ok:
            d.callback("ignored")
        else:
            d.errback(exc)

    def body(count=None):
        t = clk.seconds()
        sim.event("call", t, "-" if count is None else count)
        sim.check("no-call-after-finish", m.running, "call", "function called at t=%s after stop()/failure" % t)
        sim.check("no-overlap", not m.outstanding, "call", "function called at t=%s while the previous call's Deferred is unfired" % t)
        in_start = m.immediate
        if m.immediate:
            m.immediate = False
            sim.check("immediate-call-at-start", Fraction(t) == m.origin, "call", "t=%s origin=%s" % (t, m.origin))
        else:
            sim.check("call-scheduled", m.next_due is not None, "call", "function called at t=%s with no call due" % t)
            sim.check("call-not-early", Fraction(t) >= m.next_due, "call", "called at t=%s before the boundary t=%s" % (t, float(m.next_due)))
            if st["exact"]:
                sim.check("call-at-boundary", Fraction(t) == m.next_due, "call",
                          "clock ran the timer at its time, yet the call happened at t=%s, boundary t=%s" % (t, float(m.next_due)))
            elif Fraction(t) > m.next_due:
                st["overshoot"] += 1
                sim.fault("clock_overshoot")
        m.next_due = None
        st["calls"] += 1
        if counted:
            sim.check("count-is-int", isinstance(count, int), "count", "count=%r" % (count,))
            after_reset = m.reset_since_call
            base = m.count_base
            want_n, at_least = m.counted_call(t)
            if not m.grid_stable:
                # the grid was moved by reset(): per-call form of the sum clause on the grid in force
                if want_n is not None:
                    sim.probe("count_verdict_first_call_after_reset" if after_reset else "count_verdict_later_call_after_reset")
                    if after_reset and Fraction(t) > m.origin + m.I:
                        sim.probe("count_verdict_late_first_call_after_reset")
                    sim.check("count-after-reset", count == want_n, "withCount",
                              "count %d passed at t=%s, but %d boundaries of the grid origin=%s interval=%s elapsed since t=%s (%s)"
                              % (count, t, want_n, float(m.origin), float(m.I), float(base),
                                 "the reset, at which nothing was owed" if after_reset else "the previous call"))
                else:
                    sim.probe("count_no_verdict_after_reset_with_boundaries_owed")
                    sim.check("count-after-reset-at-least", count >= at_least, "withCount",
                              "count %d passed at t=%s, but %d boundaries of the new grid origin=%s interval=%s elapsed since the reset"
                              % (count, t, at_least, float(m.origin), float(m.I)))
            if m.grid_stable:
                m.count_sum += count
                want = m.boundaries_elapsed(t) + (1 if m.now_flag else 0)
                sim.check("count-sum", m.count_sum == want, "withCount",
                          "sum of counts %d != boundaries elapsed %d (+1 for the immediate call: %s) at t=%s origin=%s interval=%s"
                          % (m.count_sum, want - (1 if m.now_flag else 0), m.now_flag, t, float(m.origin), float(m.I)))
                if count > 1:
                    sim.probe("count_gt_1")
        kind = sim.draw_weighted([("return", 8), ("latency-ok", 5), ("manual", 2), ("fired-ok", 1), ("stop-inside", 1),
                                  ("latency-fail", 1), ("raise", 1), ("fired-fail", 1)], "behaviour")
        sim.event("behaviour", kind)
        blocked = False
        stopped_early = False
        if block_w and sim.draw_weighted([(False, 6), (True, block_w)], "blocks"):
            # the function takes time synchronously before it returns / raises / hands out its Deferred: the call was entered
            # at t (that is where its count is judged) and completes - or its Deferred's latency starts - at the later reading
            blocked = True
            if kind == "stop-inside" and sim.draw_bool(0.5, "stop_before_blocking"):
                stopped_early = True
                st["stops"] += 1
                sim.probe("stop_inside_call")
                m.stop()
                lc.stop()
            blk = amount(lat_table, "block")
            sim.event("block", blk)
            pass_time(blk)
            crossed = m.boundaries_between(t, clk.seconds())
            t = clk.seconds()
            if crossed:
                sim.fault("function_blocked_across_boundary")
                if crossed > 1:
                    sim.probe("function_blocked_across_several_boundaries")
            else:
                sim.probe("function_blocked_within_interval")
            if in_start:
                sim.probe("function_blocked_inside_start")
        if (blocked or not st["exact"]) and kind in ("return", "stop-inside", "raise", "fired-ok", "fired-fail"):
            note_completion(t)      # completes synchronously: off the grid only when the clock overshot or the function took time
        if kind == "return":
            m.complete(t, True)
            return None
        if kind == "stop-inside":
            if not stopped_early:
                st["stops"] += 1
                sim.probe("stop_inside_call")
                m.stop()
                lc.stop()
            m.complete(t, True)
            return None
        if kind == "raise":
            exc = new_failure("raised")
            m.complete(t, False, exc)
            sim.probe("call_raised")
            raise exc
        if kind == "fired-ok":
            m.complete(t, True)
            return defer.succeed(None)
        if kind == "fired-fail":
            exc = new_failure("fired")
            m.complete(t, False, exc)
            return defer.fail(exc)
        d = defer.Deferred()
        m.outstanding = True
        if kind == "manual":
            st["manual"] = d
            sim.probe("manual_deferred")
        else:
            lat = amount(lat_table, "latency")
            sim.event("latency", lat)
            clk.callLater(lat, fire, d, kind == "latency-ok")
        if sim.draw_bool(0.25, "called_but_pending"):
            # hand out a Deferred that has already been called back but whose callback chain waits on `d` (no result until `d` fires)
            sim.probe("call_returned_called_but_pending_deferred")
            _outer = defer.succeed(None)
            _outer.addCallback(lambda _ignored, d=d: d)
            return _outer
        return d

    if counted:
        lc = task.LoopingCall.withCount(body)
    else:
        lc = task.LoopingCall(body)
    lc.clock = rclk

    def record(res):
        if isinstance(res, Failure):
            results.append(("fail", res.value))
        elif res is lc:
            results.append(("lc",))
        else:
            results.append(("other", repr(res)))
        r = st.pop("restart_in_cb", None)
        if r is not None:
            # the application restarts the loop from inside the callback of the previous start()'s Deferred
            sim.probe("restart_from_start_deferred_callback")
            st["restarts"] += 1
            m.grid_stable = False
            do_start(*r)
        return None

    def do_start(ival, now):
        t = clk.seconds()
        sim.event("start", t, ival, now)
        st["interval"] = ival
        m.start(t, ival, now)
        with Escape(sim, "no-raise", "start"):
            d = lc.start(ival, now=now)
        d.addBoth(record)

    def after(full):
        if sim.violation is not None:
            raise sim.violation
        now = Fraction(clk.seconds())
        sim.check("running-flag", bool(lc.running) == m.running, "state", "LoopingCall.running=%s model=%s" % (lc.running, m.running))
        sim.check("start-deferred-once", len(results) <= len(m.expected) and results == m.expected[:len(results)], "result",
                  lambda: "start() Deferred results %r, expected %r" % (results, m.expected))
        sim.check("start-deferred-fired", len(results) == len(m.expected), "result",
                  lambda: "start() Deferred results %r, expected %r" % (results, m.expected))
        sim.check("rescheduled", not m.need_sched, "timer", "call completed while running but no timer was scheduled")
        live = [dc for dc in scheduled if dc.active()]
        if m.next_due is not None:
            sim.check("one-timer", len(live) == 1 and Fraction(live[0].getTime()) == m.next_due, "timer",
                      lambda: "live timers %r, expected one at %s" % ([dc.getTime() for dc in live], float(m.next_due)))
            if full:
                sim.check("due-call-ran", m.next_due > now, "timer", "a call due at t=%s has not run at t=%s" % (float(m.next_due), float(now)))
        else:
            sim.check("no-stray-timer", not live, "timer", lambda: "live timers %r but no call is due" % ([dc.getTime() for dc in live],))
        scheduled[:] = live
        sim.state((m.running, m.outstanding, m.next_due is not None, st["manual"] is not None, min(st["calls"], 6), family))

    do_start(interval, now_flag)
    after(False)

    for _ in range(nops):
        sim.step(400 * sim.depth)
        can_fire = st["manual"] is not None
        idle = (not m.running) and (not m.outstanding)
        ops = [("clock", 14), ("fire", 5 if can_fire else 0), ("stop", 2 if m.running else 0), ("reset", 2 if m.running else 0),
               ("restart", 3 if (idle and not counted) else 0)]
        op = sim.draw_weighted(ops, "op")
        full = False
        if op == "clock":
            dt = amount(step_table, "dt")
            if family == "task-clock":
                st["exact"] = False
                sim.event("task.Clock.advance", dt)
                with Escape(sim, "no-raise", "clock"):
                    clk.advance(dt)
                full = True
            else:
                modes = ["advance", "run_next"] + (["jump", "jump"] if family == "sim-jump" else [])
                mode = sim.draw_choice(modes, "mode")
                sim.event("clock", mode, dt)
                with Escape(sim, "no-raise", "clock"):
                    if mode == "advance":
                        st["exact"] = True
                        advance_exact(dt)
                        full = True
                    elif mode == "run_next":
                        st["exact"] = True
                        clk.run_next()
                    else:
                        st["exact"] = False
                        clk.jump(dt)
                        full = True
        elif op == "fire":
            ok = not sim.draw_bool(0.25, "fail")
            with Escape(sim, "no-raise", "fire"):
                fire(st["manual"], ok)
        elif op == "stop":
            st["stops"] += 1
            sim.event("stop", clk.seconds())
            if m.outstanding:
                sim.probe("stop_while_outstanding")
            if not m.outstanding and not counted and sim.draw_bool(0.3, "restart_from_callback"):
                st["restart_in_cb"] = (sim.draw_choice(INTERVALS, "interval2"), sim.draw_bool(0.5, "now2"))
            m.stop()
            with Escape(sim, "no-raise", "stop"):
                lc.stop()
            st.pop("restart_in_cb", None)
        elif op == "reset":
            st["resets"] += 1
            sim.event("reset", clk.seconds())
            if m.outstanding:
                sim.probe("reset_while_outstanding")
            clean = m.reset(clk.seconds())
            if counted and clean is not None:
                sim.probe("reset_withCount_nothing_owed" if clean else "reset_withCount_boundaries_owed")
            with Escape(sim, "no-raise", "reset"):
                lc.reset()
        else:
            st["restarts"] += 1
            m.grid_stable = False
            sim.probe("restart")
            do_start(sim.draw_choice(INTERVALS, "interval2"), sim.draw_bool(0.5, "now2"))
        after(full)
    sim.sim_time += clk.seconds() - t_begin
    sim.nontrivial = st["calls"] >= 2 and bool(st["offgrid"] or st["overshoot"] or st["stops"] or st["resets"])


MUTANTS = [
    "seeded C10-r6a: withCount counter sets _realLastTime in a finally AFTER countCallable returned (fresh clock reading): boundaries that pass while the "
    "function itself runs are never reported: CAUGHT count-sum / count-after-reset (was missed while no function took time synchronously)",
    "task.py __call__ remembers the reading on entry and cb reschedules from it when the function returned None (a function that took longer than an "
    "interval gets a timer in the past / on a boundary already gone): CAUGHT schedule-on-boundary (equivalent before functions took time)",
    "seeded C10-r5a: __call__ invokes f directly inside try/except Exception instead of maybeDeferred (a KeyboardInterrupt/SystemExit/CancelledError of the "
    "function escapes, start()'s Deferred is lost): CAUGHT no-raise:clock:<type> / no-raise:start:<type> / start-deferred-fired (was missed while only "
    "Exception subclasses were raised)",
    "seeded C10-r5b: _scheduleFrom treats a remainder < interval/100 as zero and skips a boundary: CAUGHT schedule-on-boundary (was missed while all "
    "completions were at multiples of interval/8 off the grid)",
    "task.py __call__.eb 'd.errback(failure)' only for failure.check(Exception) (bare failures of the call's Deferred dropped): CAUGHT start-deferred-fired",
    "task.py _scheduleFrom 'untilNextInterval = self.interval - (runningFor % self.interval)' -> rounds runningFor to 1/64 interval first: CAUGHT schedule-on-boundary",
    "task.py _scheduleFrom 'untilNextInterval = self.interval - (runningFor % self.interval)' -> 'untilNextInterval = self.interval' (drift): CAUGHT schedule-on-boundary",
    "task.py withCount counter 'lastTime -= self.interval' removed (count from wrong base, first count 0): CAUGHT schedule-expected (callable skipped)",
    "task.py withCount counter 'self._realLastTime = now' (count>0 branch) removed: CAUGHT count-sum",
    "task.py __call__.eb 'self.running = False' removed: CAUGHT running-flag",
    "task.py stop() 'self.call.cancel()' removed: CAUGHT no-stray-timer",
    "task.py __call__.cb 'if self.running:' -> 'if True:' (reschedules after stop while a Deferred was outstanding): CAUGHT schedule-expected",
    "task.py reset() keeps old starttime ('self.starttime = ...' dropped): CAUGHT schedule-on-boundary",
    "task.py _intervalOf 'int(x)' -> 'int(round(x))': CAUGHT count-sum / schedule-expected",
    "task.py _intervalOf 'int(x)' -> 'math.floor(x)' (times before the rebased starttime round away from zero: the first count after a reset strictly "
    "between two boundaries is one too many): CAUGHT count-after-reset (was missed while counts were only checked on runs without reset())",
    "task.py reset() additionally 'self._realLastTime = None' (with now=True the baseline moves back one interval: first count after a reset one too many): CAUGHT count-after-reset",
    "task.py withCount counter 'self._realLastTime = now' -> 'self._realLastTime = self.starttime' (counts re-report boundaries after a reset / late call): CAUGHT count-sum / count-after-reset",
    "task.py _scheduleFrom 'if when == when + untilNextInterval:' -> 'if False:': SURVIVES - equivalent under the statement's dyadic-time quantifier (branch only guards float absorption at huge magnitudes)",
]
