"""Shared harness for the HTTP/1.1 server family (C18, C19, C20, C21).

Real code: twisted.web.http.HTTPFactory(reactor=sim.clock).buildProtocol() -> the
_GenericHTTPChannelProtocol proxy around a real HTTPChannel, real Request
(subclassed only to record what the application is handed), real LineReceiver /
TimeoutMixin / transfer decoders underneath.

Stubbed: the TCP transport (HTransport, a detsim.net.SimTransport that also
remembers where the server first asked to close), the client (scripted bytes),
the wall clock (http.gmtime is rebound to the simulated clock so that
http.datetimeToString() -- Date / Last-Modified -- is a function of sim time).

Also here: the request-stream grammar (well-formed requests with legal
oddities, the catalogue of single-defect requests, byte mutations) and the
h11 cross-check helpers.  The reference parsers live in models/http1.py.
"""
import os

import h11

from twisted.internet import error
from twisted.internet.address import IPv4Address
from twisted.python.failure import Failure
from twisted.web import http

from detsim import net
from models import http1

EPOCH = 1000000000.0   # simulated wall clock at sim time 0 (Sun, 09 Sep 2001 01:46:40 GMT)

_saved = {}


def install_clock_seam(sim):
    """http.datetimeToString() calls the module-level name `gmtime` (from time
    import gmtime); with no argument that reads the wall clock.  Rebind it to the
    simulated clock.  Restored by cleanup()."""
    if "gmtime" not in _saved:
        _saved["gmtime"] = http.gmtime
    real = _saved["gmtime"]
    clock = sim.clock

    def sim_gmtime(secs=None):
        return real(EPOCH + clock.seconds() if secs is None else secs)

    http.gmtime = sim_gmtime


def cleanup(sim):
    if "gmtime" in _saved:
        http.gmtime = _saved["gmtime"]
    if "tempfile" in _saved:
        http.tempfile = _saved["tempfile"]


class SpoolFile:
    """The temporary file a request body is spooled to (what http._getContentFile() gets from tempfile.TemporaryFile() for a
    chunked body or a body of >= 100000 bytes), on a device that may report an error when the file is closed - EIO on a failing or
    network disk, ENOSPC/EDQUOT on a delayed flush.  Everything is passed to the real temporary file; close() closes it (the
    descriptor is gone either way, as in CPython) and then asks `decide(self)` for an errno to report (None/0: none).  A second
    close() is a no-op, as with real files.  `owner` is free for the scenario (which request the file belongs to)."""

    def __init__(self, real, decide):
        self._real = real
        self._decide = decide
        self.owner = None
        self.close_calls = 0

    def __getattr__(self, name):
        return getattr(self._real, name)

    def close(self):
        self.close_calls += 1
        self._real.close()
        if self.close_calls > 1:
            return
        err = self._decide(self)
        if err:
            raise OSError(err, os.strerror(err))


class _TempfileSeam:
    """Stands in for the name `tempfile` inside twisted.web.http (the module calls tempfile.TemporaryFile()): the real module, except
    that every TemporaryFile() is passed through `wrap`."""

    def __init__(self, real, wrap):
        self._real = real
        self._wrap = wrap

    def __getattr__(self, name):
        return getattr(self._real, name)

    def TemporaryFile(self, *args, **kwargs):
        return self._wrap(self._real.TemporaryFile(*args, **kwargs))


def install_tempfile_seam(sim, wrap):
    """Optional (used by C21): rebind the module-level name `tempfile` of twisted.web.http for this run, so that the scenario owns the
    spool files of request bodies (`wrap(real_file)` -> the object the Request gets as .content, e.g. a SpoolFile).  Nothing outside
    twisted.web.http is touched; restored by cleanup()."""
    if "tempfile" not in _saved:
        _saved["tempfile"] = http.tempfile
    http.tempfile = _TempfileSeam(_saved["tempfile"], wrap)


# ------------------------------------------------------------------ transport

class HTransport(net.SimTransport):
    """SimTransport that records the point of the server's first close request.

    Optional mode `sync_loss` (default off): loseConnection() / abortConnection() report the
    loss to the protocol SYNCHRONOUSLY, before they return - what in-memory transports do
    (twisted.internet.testing.StringTransportWithDisconnection, loopback-style transports).
    `on_sync_loss`, if set, is called just before the protocol hears about it (so that a
    scenario's model can note "connection lost now" before any callback runs)."""

    sync_loss = False
    on_sync_loss = None

    def __init__(self, sim, name="S", hwm=None):
        net.SimTransport.__init__(self, sim, name, ("10.0.0.2", 80), ("10.0.0.1", 40000), hwm)
        self.close_at = None        # len(written) when loseConnection/abortConnection was first called
        self.on_close = None

    def _sync_lost(self, exc):
        self.sim.fault("loss_reported_inside_loseConnection")
        if self.on_sync_loss is not None:
            self.on_sync_loss()
        self.lose(Failure(exc))

    def _mark(self):
        if self.close_at is None:
            self.close_at = len(self.written)
            if self.on_close is not None:
                self.on_close()

    def loseConnection(self, _reason=None):
        live = not (self.disconnected or self.aborted)
        if live:
            self._mark()
        net.SimTransport.loseConnection(self)
        if live and self.sync_loss:
            self._sync_lost(error.ConnectionDone())

    def abortConnection(self):
        live = not (self.disconnected or self.aborted)
        if live:
            self._mark()
        net.SimTransport.abortConnection(self)
        if live and self.sync_loss:
            self._sync_lost(error.ConnectionAborted())


# ------------------------------------------------------------------ server

class Delivered:
    """What the application was handed for one request (snapshot at process())."""
    __slots__ = ("method", "target", "version", "headers", "body", "written_before", "index")

    def key(self):
        return (self.method, self.target, self.version, self.headers, self.body)

    def __repr__(self):
        return "Req(%r %r %r %r body=%r)" % (self.method, self.target, self.version, self.headers, self.body)


def _snapshot(req, index, written_before):
    d = Delivered()
    d.method, d.target, d.version = req.method, req.uri, req.clientproto
    d.headers = http1.header_map([(n, v) for n, vs in req.requestHeaders.getAllRawHeaders() for v in vs])
    pos = req.content.tell()
    req.content.seek(0, 0)
    d.body = req.content.read()
    req.content.seek(pos, 0)
    d.index = index
    d.written_before = written_before
    return d


class RecRequest(http.Request):
    """The application: records the request, then runs the scenario's handler."""

    def process(self):
        self.channel.factory._h_server._on_process(self)


KNOB_DEFAULTS = {"MAX_LENGTH": 16384, "totalHeadersSize": 16384, "maxHeaders": 500, "_optimisticEagerReadSize": 0x4000}


class Server:
    def __init__(self, sim, app, timeout=None, hwm=None, knobs=None, site=None, transport_cls=None, sync_loss=False):
        self.sim = sim
        self.app = app                  # app(server, request, index)
        self.delivered = []             # Delivered, in order
        self.requests = []              # the live Request objects, same order
        self.raised = None
        install_clock_seam(sim)
        if site is not None:
            self.factory = site
        else:
            self.factory = http.HTTPFactory(timeout=timeout, reactor=sim.clock)
        self.factory._h_server = self
        self.proto = self.factory.buildProtocol(IPv4Address("TCP", "10.0.0.1", 40000))
        if site is None:
            self.proto.requestFactory = RecRequest
        self.channel = self.proto._channel
        for k, v in (knobs or {}).items():
            setattr(self.channel, k, v)
        self.t = (transport_cls or HTransport)(sim, "S", hwm)
        if sync_loss:
            self.t.sync_loss = True     # HTransport only; default off
        self.t.protocol = self.proto
        self.proto.makeConnection(self.t)

    def _on_process(self, req):
        idx = len(self.delivered)
        self.delivered.append(_snapshot(req, idx, len(self.t.written)))
        self.requests.append(req)
        self.app(self, req, idx)

    # -- client side
    def can_deliver(self):
        return self.t.reading and not self.t.disconnected

    def deliver(self, data):
        self.proto.dataReceived(data)

    def closing(self):
        return self.t.disconnecting or self.t.disconnected

    def lose(self, clean=False):
        self.t.lose(Failure(error.ConnectionDone() if clean else error.ConnectionLost()))


# ------------------------------------------------------------------ grammar: well-formed requests

METHODS = [b"GET", b"POST", b"HEAD", b"PUT", b"DELETE", b"OPTIONS", b"M-SEARCH", b"get", b"PATCH"]
TARGETS = [b"/", b"/a", b"/a/b?x=1&y=2", b"*", b"http://h.test/abs?q", b"/%20p/~u", b"/;p=1", b"/a?b=c%26d#f"]
VCHARS = bytes(range(0x21, 0x7f))
HNAMES = [b"X-B", b"X-A", b"Accept", b"User-Agent", b"X-Long-Name-0123456789", b"Cookie", b"x~odd!#$%&'*+.^_`|", b"If-None-Match",
          b"X-A", b"Cache-Control"]
VALUE_ALPHABET = b"abcXYZ019 \t,;=:\"/()<>@[]{}?\\-_.~%" + bytes([0x80, 0xe9, 0xff])
OWS = [b" ", b"", b"  ", b"\t", b" \t "]
SMUGGLE = b"SMUGGLED /s HTTP/1.1\r\nHost: s\r\n\r\n"
BODY_BITS = [b"", b"hello", b"0\r\n\r\n", SMUGGLE, b"\r\n", b"a=1&b=2", bytes([0, 255, 13, 10, 32]), b"GET / HTTP/1.1\r\n\r\n", b"5\r\nhello\r\n"]
MARKERS = (b"SMUGGLED", b"VICTIM")


def _case(sim, name):
    k = sim.draw_int(0, 3, "case")
    if k == 0:
        return name
    if k == 1:
        return name.lower()
    if k == 2:
        return name.upper()
    return bytes(c ^ 0x20 if (i % 2 and (65 <= c <= 90 or 97 <= c <= 122)) else c for i, c in enumerate(name))


def gen_value(sim, maxlen=12):
    n = sim.draw_int(0, maxlen, "vlen")
    return sim.draw_bytes(n, VALUE_ALPHABET).strip(b" \t")


def gen_body(sim, maxbits=3):
    out = b""
    for _ in range(sim.draw_int(0, maxbits, "nbits")):
        if sim.draw_bool(0.3, "rawbits"):
            out += sim.draw_bytes(sim.draw_int(1, 9, "rawlen"))
        else:
            out += sim.draw_choice(BODY_BITS, "bit")
    return out


def header_line(sim, name, value):
    return _case(sim, name) + b":" + sim.draw_choice(OWS, "ows1") + value + sim.draw_choice(OWS[1:] + OWS[:1], "ows2") + b"\r\n"


def split_pieces(sim, body, maxn=4):
    """body -> 1..maxn non-empty pieces."""
    if len(body) <= 1:
        return [body] if body else []
    pts = sorted(set(sim.draw_int(1, len(body) - 1, "cpt") for _ in range(sim.draw_int(0, maxn - 1, "ncp"))))
    out, last = [], 0
    for p in pts:
        out.append(body[last:p])
        last = p
    out.append(body[last:])
    return out


SIZEFMT = [b"%x", b"%X", b"0%x", b"000%X"]
EXTS = [b"", b";a=b", b";x", b';q="v w"', b";a=b;c=\"d;e\"", b";\xe9"]
TRAILERS = [(), (b"X-T: 1",), (b"X-T: 1", b"Y-U:2")]


class ReqSpec:
    __slots__ = ("wire", "method", "target", "version", "headers", "body", "persistent", "expect100", "bounds", "framing", "kind")

    def key(self):
        return (self.method, self.target, self.version, http1.header_map(self.headers), self.body)


def gen_request(sim, last=False, method=None, target=None, oddities=True, extra_headers=(), allow_10=True,
                allow_expect=True, body=None, framing=None, content_types=None, long_ext=False, trailers=None):
    """One well-formed request; the ground truth is known by construction.
    `trailers` (optional): candidate trailer sections (tuples of field lines) drawn instead of TRAILERS."""
    r = ReqSpec()
    r.kind = "ok"
    r.method = method if method is not None else sim.draw_choice(METHODS, "method")
    if target is not None:
        r.target = target
    elif sim.draw_bool(0.25, "rndtarget"):
        r.target = b"/" + sim.draw_bytes(sim.draw_int(0, 10, "tlen"), VCHARS)
    else:
        r.target = sim.draw_choice(TARGETS, "target")
    r.version = b"HTTP/1.1"
    close = False
    if last and allow_10:
        k = sim.draw_int(0, 3, "lastkind")
        if k == 1:
            r.version = b"HTTP/1.0"
        elif k == 2:
            close = True
    r.persistent = r.version == b"HTTP/1.1" and not close
    if framing is None:
        fr = ["none", "length", "chunked"] if r.version == b"HTTP/1.1" else ["none", "length"]
        framing = sim.draw_choice(fr, "framing")
    r.framing = framing
    r.body = b"" if framing == "none" else (gen_body(sim) if body is None else body)
    hdrs = []   # (name, value) in wire order
    for _ in range(sim.draw_int(0, 4, "nhdr")):
        hdrs.append((sim.draw_choice(HNAMES, "hname"), gen_value(sim)))
    # exactly one Host field (RFC 9112 s.3.2; h11 insists on it)
    hdrs.insert(sim.draw_int(0, len(hdrs), "hostpos"), (b"Host", sim.draw_choice([b"h.test", b"h.test:8080", b"[::1]:80", b""], "host")))
    if content_types and sim.draw_bool(0.4, "ctype"):
        hdrs.append((b"Content-Type", sim.draw_choice(content_types, "ct")))
    for h in extra_headers:
        hdrs.append(h)
    if close:
        hdrs.insert(sim.draw_int(0, len(hdrs), "closepos"), (b"Connection", b"close"))
    r.expect100 = False
    if allow_expect and framing != "none" and r.version == b"HTTP/1.1" and sim.draw_bool(0.15, "expect"):
        r.expect100 = True
        hdrs.insert(sim.draw_int(0, len(hdrs), "exppos"), (b"Expect", sim.draw_choice([b"100-continue", b"100-Continue"], "expv")))
    payload = b""
    if framing == "length":
        n = b"%d" % len(r.body)
        if oddities and sim.draw_bool(0.2, "leadzero"):
            n = b"00" + n
        hdrs.insert(sim.draw_int(0, len(hdrs), "clpos"), (b"Content-Length", n))
        payload = r.body
    elif framing == "chunked":
        hdrs.insert(sim.draw_int(0, len(hdrs), "tepos"),
                    (b"Transfer-Encoding", sim.draw_choice([b"chunked", b"Chunked", b"CHUNKED"], "tev") if oddities else b"chunked"))
        pieces = split_pieces(sim, r.body)
        if oddities:
            exts = [sim.draw_choice(EXTS, "ext") for _ in pieces]
            if long_ext and pieces and sim.draw_bool(0.1, "longext"):
                # chunk-size line right at the decoder's documented limit (maxChunkSizeLineLength = 1024):
                # "under" = longest lines the decoder documents as acceptable, "straddle" = either side of the limit
                szlen = 8 if long_ext == "straddle" else 15
                exts[0] = b";" + b"e" * (1024 - szlen + sim.draw_int(0, 8, "extlen"))
            payload = http1.chunk_encode(pieces, [sim.draw_choice(SIZEFMT, "szf") for _ in pieces], exts, sim.draw_choice(TRAILERS if trailers is None else trailers, "trl"))
        else:
            payload = http1.chunk_encode(pieces)
    w = bytearray()
    if oddities and sim.draw_bool(0.08, "leadcrlf"):
        w += b"\r\n"                       # one empty line before the request-line (RFC 9112 s.2.2)
    w += r.method + b" " + r.target + b" " + r.version + b"\r\n"
    b1 = len(w)
    r.headers = []
    for name, value in hdrs:
        if oddities:
            w += header_line(sim, name, value)
        else:
            w += name + b": " + value + b"\r\n"
        r.headers.append((name.lower(), value))
    w += b"\r\n"
    b2 = len(w)
    w += payload
    r.wire = bytes(w)
    r.bounds = [b1, b2, len(w)]
    return r


def gen_stream(sim, nmax=5, **kw):
    """1..nmax pipelined well-formed requests; only the last may be non-persistent."""
    n = sim.draw_int(1, nmax, "nreq")
    specs = [gen_request(sim, last=(i == n - 1), **kw) for i in range(n)]
    return specs


def stream_bytes(specs):
    out = bytearray()
    bounds = []
    for s in specs:
        bounds += [len(out) + b for b in s.bounds]
        out += s.wire
    return bytes(out), bounds


# ------------------------------------------------------------------ grammar: byte mutations (C18)

HOSTILE = b"\r\n \t:;0\x00\xffAz,=-+"


def mutate(sim, data, nmax=3):
    data = bytearray(data)
    n = sim.draw_int(0, nmax, "nmut")
    for _ in range(n):
        if not data:
            break
        kind = sim.draw_choice(["replace", "delete", "insert", "dupslice", "truncate", "crlf2lf", "insertline"], "mut")
        pos = sim.draw_int(0, len(data) - 1, "mpos")
        if kind == "replace":
            data[pos] = sim.draw_choice(HOSTILE, "mbyte")
        elif kind == "delete":
            del data[pos:pos + sim.draw_int(1, 3, "mdel")]
        elif kind == "insert":
            data[pos:pos] = sim.draw_bytes(sim.draw_int(1, 3, "mins"), HOSTILE)
        elif kind == "dupslice":
            ln = sim.draw_int(1, 24, "mdup")
            data[pos:pos] = data[pos:pos + ln]
        elif kind == "truncate":
            del data[pos:]
        elif kind == "crlf2lf":
            i = data.find(b"\r\n", pos)
            if i >= 0:
                del data[i:i + 1]
        elif kind == "insertline":
            i = data.find(b"\r\n", pos)
            if i >= 0:
                line = sim.draw_choice([b" folded", b"\tfolded more", b"X-Ins: 1", b"Content-Length: 3", b"Transfer-Encoding: chunked",
                                        b"Expect: 100-continue", b"Connection: close", b"", b"NoColon"], "mline")
                data[i + 2:i + 2] = line + b"\r\n"
    return bytes(data), n


# ------------------------------------------------------------------ grammar: single-defect requests (C19 family b)

def _req(line, headers, payload=b""):
    return line + b"\r\n" + b"".join(h + b"\r\n" for h in headers) + b"\r\n" + payload


def _chunked(body):
    return http1.chunk_encode([body]) if body else http1.chunk_encode([])


def gen_defective(sim, kind):
    """Wire bytes of ONE request carrying exactly the named defect (everything
    else about it is well-formed), with a payload that a mis-framing parser would
    read as a request with method SMUGGLED."""
    host = b"Host: d.test"
    body = sim.draw_choice([SMUGGLE, b"hello" + SMUGGLE, b"hello"], "dbody")
    n = b"%d" % len(body)
    post = b"POST /defect HTTP/1.1"
    get = b"GET /defect HTTP/1.1"
    TE = b"Transfer-Encoding: chunked"
    if kind == "cl+te":
        return _req(post, [host, b"Content-Length: " + n, TE], _chunked(body))
    if kind == "te+cl":
        return _req(post, [host, TE, b"Content-Length: " + n], _chunked(body))
    if kind == "te+cl-short":        # CL frames only the terminating chunk; the rest would be smuggled
        return _req(post, [host, TE, b"Content-Length: 5"], b"0\r\n\r\n" + SMUGGLE)
    if kind == "cl-dup-same":
        return _req(post, [b"Content-Length: " + n, host, b"Content-Length: " + n], body)
    if kind == "cl-dup-diff":
        return _req(post, [b"Content-Length: 0", host, b"Content-Length: " + n], body)
    if kind == "cl-dup-diff2":
        return _req(post, [b"Content-Length: " + n, host, b"Content-Length: 0"], body)
    if kind == "cl-list":
        return _req(post, [host, b"Content-Length: " + n + b", " + n], body)
    if kind == "cl-plus":
        return _req(post, [host, b"Content-Length: +" + n], body)
    if kind == "cl-minus":
        return _req(post, [host, b"Content-Length: -" + n], body)
    if kind == "cl-space":
        return _req(post, [host, b"Content-Length: " + (n[:1] + b" " + n[1:] if len(n) > 1 else b"0 " + n)], body)
    if kind == "cl-hex":
        return _req(post, [host, b"Content-Length: 0x%x" % len(body)], body)
    if kind == "cl-empty":
        return _req(post, [host, b"Content-Length:"], body)
    if kind == "cl-alpha":
        return _req(post, [host, b"Content-Length: " + n + b"a"], body)
    if kind == "cl-dot":
        return _req(post, [host, b"Content-Length: " + n + b".0"], body)
    if kind == "cl-underscore":
        return _req(post, [host, b"Content-Length: " + n[:1] + b"_" + n[1:]], body)
    if kind == "te-gzip":
        return _req(post, [host, b"Transfer-Encoding: gzip"], _chunked(body))
    if kind == "te-gzip-chunked":
        return _req(post, [host, b"Transfer-Encoding: gzip, chunked"], _chunked(body))
    if kind == "te-chunked-gzip":
        return _req(post, [host, b"Transfer-Encoding: chunked, gzip"], _chunked(body))
    if kind == "te-chunked-twice":
        return _req(post, [host, b"Transfer-Encoding: chunked, chunked"], _chunked(body))
    if kind == "te-two-headers":
        return _req(post, [host, TE, TE], _chunked(body))
    if kind == "te-xchunked":
        return _req(post, [host, b"Transfer-Encoding: xchunked"], _chunked(body))
    if kind == "te-quoted":
        return _req(post, [host, b"Transfer-Encoding: \"chunked\""], _chunked(body))
    if kind == "chunk-0x":
        return _req(post, [host, TE], b"0x5\r\nhello\r\n0\r\n\r\n")
    if kind == "chunk-plus":
        return _req(post, [host, TE], b"+5\r\nhello\r\n0\r\n\r\n")
    if kind == "chunk-minus":
        return _req(post, [host, TE], b"-5\r\nhello\r\n0\r\n\r\n")
    if kind == "chunk-nonhex":
        return _req(post, [host, TE], b"5g\r\nhello\r\n0\r\n\r\n")
    if kind == "chunk-empty":
        return _req(post, [host, TE], b"\r\nhello\r\n0\r\n\r\n")
    if kind == "chunk-empty-ext":
        return _req(post, [host, TE], b";a=b\r\nhello\r\n0\r\n\r\n")
    if kind == "chunk-no-crlf":
        return _req(post, [host, TE], b"5\r\nhelloXX0\r\n\r\n" + SMUGGLE)
    if kind == "chunk-lf-only":
        return _req(post, [host, TE], b"5\r\nhello\n0\r\n\r\n" + SMUGGLE)
    if kind == "chunk-short-data":   # declared size larger than the data before the CRLF
        return _req(post, [host, TE], b"3\r\nhello\r\n0\r\n\r\n")
    if kind == "rl-two-spaces":
        return _req(b"GET  /defect HTTP/1.1", [host])
    if kind == "rl-no-version":
        return _req(b"GET /defect", [host])
    if kind == "rl-lower-http":
        return _req(b"GET /defect http/1.1", [host])
    if kind == "rl-bad-method":
        return _req(sim.draw_choice([b"GE(T", b"G@T", b"GET:", b"G\x01T", b"G\xe9T", b"\"GET\""], "badm") + b" /defect HTTP/1.1", [host])
    if kind == "rl-tab":
        return _req(b"GET\t/defect\tHTTP/1.1", [host])
    if kind == "rl-trailing-space":
        return _req(b"GET /defect HTTP/1.1 ", [host])
    if kind == "rl-leading-space":
        return _req(b" GET /defect HTTP/1.1", [host])
    if kind == "rl-empty-target":
        return _req(b"GET  HTTP/1.1", [host])
    if kind == "rl-version-junk":
        return _req(b"GET /defect " + sim.draw_choice([b"HTTP/1.1x", b"HTTP/11", b"HTTP/1.", b"HTTP/a.b", b"HTTP1.1", b"HTTPS/1.1", b"HTTP/1,1", b"/1.1"], "badv"), [host])
    if kind == "rl-ctl-target":
        return _req(b"GET /de" + sim.draw_choice([b"\x00", b"\x01", b"\t", b"\x1f", b"\r", b"\n", b"\x0b"], "ctl") + b"fect HTTP/1.1", [host])
    if kind == "rl-extra-part":
        return _req(b"GET /defect HTTP/1.1 extra", [host])
    if kind == "hn-space-before-colon":
        return _req(post, [host, b"Content-Length : " + n], body)
    if kind == "hn-tab-before-colon":
        return _req(post, [host, b"Content-Length\t: " + n], body)
    if kind == "hn-no-colon":
        return _req(get, [host, b"NoColonHere"])
    if kind == "hn-empty":
        return _req(get, [host, b": value"])
    if kind == "hn-delim":
        return _req(get, [host, b"X" + sim.draw_choice([b"(", b")", b"@", b"[", b"/", b"\"", b"{", b"=", b"<", b"\\", b"?", b","], "dl") + b"A: v"])
    if kind == "hn-nonascii":
        return _req(get, [host, b"X-\xe9: v"])
    if kind == "hn-ctl":
        return _req(get, [host, b"X" + sim.draw_choice([b"\x01", b"\x00", b"\x7f", b"\x0b"], "hc") + b"A: v"])
    if kind == "hn-space-inside":
        return _req(post, [host, b"X A: v", b"Content-Length: " + n], body)
    if kind == "hn-last-invalid":    # the invalid field line is the last one before the empty line
        return _req(post, [host, b"Content-Length: " + n, b"Bad Name: v"], body)
    if kind == "hv-nul":
        return _req(post, [host, b"X-A: a\x00b", b"Content-Length: " + n], body)
    if kind == "hv-nul-last":
        return _req(post, [host, b"Content-Length: " + n, b"X-A: a\x00b"], body)
    raise KeyError(kind)


STRICT_DEFECTS = [
    "cl+te", "te+cl", "te+cl-short", "cl-dup-same", "cl-dup-diff", "cl-dup-diff2", "cl-list", "cl-plus", "cl-minus", "cl-space", "cl-hex",
    "cl-empty", "cl-alpha", "cl-dot", "cl-underscore",
    "te-gzip", "te-gzip-chunked", "te-chunked-gzip", "te-chunked-twice", "te-two-headers", "te-xchunked", "te-quoted",
    "chunk-0x", "chunk-plus", "chunk-minus", "chunk-nonhex", "chunk-empty", "chunk-empty-ext", "chunk-no-crlf", "chunk-lf-only", "chunk-short-data",
    "rl-two-spaces", "rl-no-version", "rl-lower-http", "rl-bad-method", "rl-tab", "rl-trailing-space", "rl-leading-space", "rl-empty-target",
    "rl-version-junk", "rl-ctl-target", "rl-extra-part",
    "hn-space-before-colon", "hn-tab-before-colon", "hn-no-colon", "hn-empty", "hn-delim", "hn-nonascii", "hn-ctl", "hn-space-inside",
    "hn-last-invalid", "hv-nul", "hv-nul-last",
]

VICTIM = b"VICTIM /victim HTTP/1.1\r\nHost: v.test\r\n\r\n"


# ------------------------------------------------------------------ h11 cross-checks

def h11_requests(stream):
    """Requests an independent server-side parser (h11) reads from the stream.
    -> (list of (method, target, version, header_map, body), 'ok'|'rejected'|'incomplete')."""
    conn = h11.Connection(our_role=h11.SERVER, max_incomplete_event_size=1 << 20)
    conn.receive_data(stream)
    out = []
    cur = None
    try:
        for _ in range(100000):
            ev = conn.next_event()
            if ev is h11.NEED_DATA:
                return out, ("ok" if cur is None and conn.their_state is h11.IDLE else "incomplete")
            if ev is h11.PAUSED:
                return out, "incomplete"
            if isinstance(ev, h11.Request):
                cur = [bytes(ev.method), bytes(ev.target), b"HTTP/" + bytes(ev.http_version),
                       [(bytes(n), bytes(v)) for n, v in ev.headers], bytearray()]
            elif isinstance(ev, h11.Data):
                cur[4] += ev.data
            elif isinstance(ev, h11.EndOfMessage):
                out.append((cur[0], cur[1], cur[2], http1.header_map(cur[3]), bytes(cur[4])))
                cur = None
                if conn.their_state is h11.MUST_CLOSE:
                    return out, "ok"
                if conn.their_state is h11.DONE:
                    conn.send(h11.Response(status_code=200, headers=[("content-length", "0")]))
                    conn.send(h11.EndOfMessage())
                    if conn.our_state is h11.MUST_CLOSE:
                        return out, "ok"
                    conn.start_next_cycle()
            elif isinstance(ev, h11.ConnectionClosed):
                return out, "ok"
    except h11.ProtocolError:
        return out, "rejected"
    return out, "incomplete"


def h11_responses(data, reqs, eof=True):
    """Responses an independent client-side parser (h11) reads from the server's
    output, given the requests [(method, version, close)] that were sent.
    -> (list of (code, reason, [(name, value)], body, [interim codes]), status)."""
    conn = h11.Connection(our_role=h11.CLIENT, max_incomplete_event_size=1 << 20)
    conn.receive_data(data)
    fed_eof = False
    out = []
    try:
        for (method, version, close) in reqs:
            hs = [("host", "x")]
            if close or version == b"HTTP/1.0":
                hs.append(("connection", "close"))
            conn.send(h11.Request(method=method, target="/", headers=hs))
            conn.send(h11.EndOfMessage())
            cur = None
            interim = []
            while True:
                ev = conn.next_event()
                if ev is h11.NEED_DATA:
                    if eof and not fed_eof:
                        conn.receive_data(b"")
                        fed_eof = True
                        continue
                    return out, "incomplete"
                if ev is h11.PAUSED:
                    return out, "paused"
                if isinstance(ev, h11.InformationalResponse):
                    interim.append(ev.status_code)
                elif isinstance(ev, h11.Response):
                    cur = [ev.status_code, bytes(ev.reason), [(bytes(n), bytes(v)) for n, v in ev.headers], bytearray(), interim]
                elif isinstance(ev, h11.Data):
                    cur[3] += ev.data
                elif isinstance(ev, h11.EndOfMessage):
                    out.append((cur[0], cur[1], cur[2], bytes(cur[3]), cur[4]))
                    break
                elif isinstance(ev, h11.ConnectionClosed):
                    return out, "closed-early"
            if conn.our_state is h11.DONE and conn.their_state is h11.DONE:
                conn.start_next_cycle()
            else:
                break
        rest = conn.trailing_data[0]
        if rest:
            return out, "extra"
        return out, "ok"
    except h11.ProtocolError as e:
        return out, "rejected:%s" % (str(e)[:80],)


H11_BAD_VALUE_BYTES = frozenset([0, 11, 12, 10, 13])


def h11_clean(b):
    return not any(c in H11_BAD_VALUE_BYTES for c in b)


# ------------------------------------------------------------------ a push producer for response bodies

class BodyProducer:
    """IPushProducer that hands the request one piece per produce() call while
    not paused.  The driver calls produce(); the channel pauses/resumes it."""

    def __init__(self, sim, req, pieces, on_done):
        self.sim, self.req, self.pieces, self.on_done = sim, req, list(pieces), on_done
        self.paused = False
        self.stopped = False
        self.log = []

    def pauseProducing(self):
        self.paused = True
        self.log.append("pause")

    def resumeProducing(self):
        self.paused = False
        self.log.append("resume")

    def stopProducing(self):
        self.stopped = True
        self.log.append("stop")

    def ready(self):
        return not self.paused and not self.stopped
