"""C35 — SSH transport delivers packets intact and detects tampering.

Engine E3 (net): a real SSHClientTransport and a real SSHServerTransport joined by
detsim.net.Link run a real curve25519-sha256 key exchange (Ed25519 host key from
/verif/fixtures) and then exchange tape-chosen service payloads.  Per run one
cipher x MAC x compression combination out of everything the transport offers.
The simulated network chooses the segmentation of both byte streams (including
the server's pre-version banner lines and the version line itself) and, in the
tamper family, alters exactly one byte of one MAC-protected packet.

The identification phase is varied in content as well as in segmentation: banner
lines may mention the version marker "SSH-" anywhere but at their start (that is
all RFC 4253 4.2 forbids) or start with a near miss ("SSH_", "ssh-"); both sides
may use their own version string (software version, comment, 1.99 for the
server); the delivery that completes the version line may carry the packets that
follow it; and either side may put cleartext IGNORE/DEBUG messages with line-like
content behind its KEXINIT (RFC 4253 7.1 allows them during key exchange).

The connection's later life is varied too: either side may start further key exchanges (sendKexInit) at any moment of the
payload phase - also both at once, also with payloads handed over while one is in progress - and in the clean family a re-key
may move the connection to another cipher/MAC/compression; and the application may make calls the transport refuses
(sendPacket with arguments no packet can be built from) in between the proper ones and carry on.

Sizes, moments and the shape of the pipe are varied as well: the identification may be long (many or long banner lines, the whole of it
at most the 4096 bytes the transport allows) and bulky messages may follow the version line, so that the delivery that completes the
version line can be of any size; IGNORE/DEBUG messages (which a transport may send during a key exchange) are sent at any moment of any
key exchange, also between a side's own NEWKEYS and its peer's; the services answer payloads from inside packetReceived, and the
connection can turn for a while into a synchronous in-memory pipe (write() hands the bytes to the peer at once), so that sends nest in
sends; and a connection may be old: its packet counters start anywhere in their 32-bit range, also a few packets before they wrap
(RFC 4253 6.4).

Oracle: without tampering the payloads dispatched to each side's service are
exactly the payloads the other side sent, in order; with tampering the receiver
disconnects (after having received at most the claimed packet length) and the
altered packet's payload and nothing after it is ever dispatched, while
everything before it is.

KEX randomness (X25519 ephemeral keys) cannot be seeded, so ciphertext differs
between executions of the same tape: traces record kinds and lengths only (all
lengths are key-independent: Ed25519 signatures and X25519 keys are fixed size).
randbytes.secureRandom (cookie, padding) is rebound to the tape during the run.
"""
import os
import random

from twisted.conch.ssh import keys, service, transport
from twisted.internet import defer
from twisted.python import randbytes

from detsim import net


def NS(t):
    return len(t).to_bytes(4, "big") + t

ID = "C35"
ENGINE = "net"
LEVEL = "exploration"
TECHNIQUE = ("deterministic simulation: real SSH client/server transports over a simulated link, real key exchange, "
             "seeded cipher/MAC/compression configuration, payloads, segmentation (asynchronous link, at times a synchronous pipe) and "
             "single-byte tampering; reference = list of payloads sent")
QUICK_RUNS = 16000
TWIN_P = 0.08   # this share of the runs drives two independent instances of the scenario one after the other (detsim.runner._run_scenario)
BATCH = 60
RUN_WALL_LIMIT_S = 30
COMPONENTS = {
    "real": ["twisted.conch.ssh.transport.SSHServerTransport", "twisted.conch.ssh.transport.SSHClientTransport",
             "SSHTransportBase.dataReceived/getPacket/sendPacket/sendKexInit/_newKeys/dispatchMessage", "SSHCiphers (cryptography backend)",
             "real curve25519-sha256 key exchange with an Ed25519 host key (fixtures/ssh_host_ed25519_key)"],
    "stub": ["TCP connection: detsim.net.Link (segmentation, tampering; for a conversation a synchronous pipe built on its on_write hook)",
             "SSHService (records packetReceived, may answer from inside it)",
             "server factory (host keys only)", "verifyHostKey (accepts; optionally asynchronously)",
             "randbytes.secureRandom (tape-driven)"],
}
RULE = ("run = one cipher x MAC x compression choice, 0..3 banner lines before the server's version string (plain text, text mentioning the "
        "version marker 'SSH-' mid-line, or a near-miss line start), default or tape-built version strings on both sides, 0..3 cleartext "
        "IGNORE/DEBUG messages with line-like content sent during the initial key exchange, real KEX, 1..8 service payloads "
        "(0 B..40 KiB) in both directions, tape-chosen segmentation of both streams (the delivery completing the server's version line may "
        "carry following packet bytes); 0..3 further key exchanges started by either side (sendKexInit) during the payload phase, possibly by "
        "both at once, with the same algorithms or (clean family, link drained first) a freshly drawn cipher/MAC/compression set on both ends; "
        "0..2 refused sendPacket calls (str or None payload, message number outside 0..255) caught by the application, which then carries on; "
        "tamper family: one byte of one post-NEWKEYS packet altered (with re-keys also packets of a later key exchange or behind it); "
        "knob async_verify_before_rekey (90% of the runs): only then may the host-key answer be outstanding in a key exchange that is "
        "followed by another one - the precondition of the finding 'client keeps _gotNewKeys set across key exchanges', repaired in /repo "
        "(witness suffix +rekey-after-newkeys-overtook-host-key-answer); "
        "sizes/moments/pipe: 12% of the runs have a long banner (lines of 40..1000 bytes up to an identification of 1.5 KiB .. exactly 4096 bytes), "
        "15% bulky early IGNORE/DEBUG messages (1..5 KB), so that the delivery completing a version line can be of any size; 0..4 IGNORE/DEBUG "
        "messages sent by a side at any point of any key exchange it is in (also between its own NEWKEYS and the peer's); 0..4 answers given by "
        "the services from inside packetReceived; clean family, 30%: conversations over a synchronous pipe (write() delivers at once, each "
        "direction a FIFO, a protocol inside dataReceived gets its bytes when that call returns) with 1..4 answers each, so that sendPacket "
        "calls nest; 25% old connections: each direction's packet counters start just below 2^16, 2^24, 2^31, 2^32-100000 or 1..80 packets "
        "before 2^32; knobs allow_big_ident_delivery / allow_window_message / allow_nested_send / allow_seq_wrap (module constants *_P): only "
        "then may a run meet the precondition of one of the four round-6 findings listed in MUTANTS, all REPAIRED in /repo (witness identification-within-4KiB+"
        "version-delivery-beyond-4KiB, suffixes +transport-message-between-own-and-peer-newkeys, +send-nested-in-send, +sequence-number-wraps); "
        "non-trivial = key exchange completed, at least one payload was dispatched, the wire was cut at least once and (clean family or the tamper was applied)")
ASSUMPTIONS = [
    "only the server sends identification lines before its version string (RFC 4253 4.2); banner lines never START with 'SSH-' "
    "(they may contain it elsewhere), end in CR LF and contain no other CR/LF",
    "the identification a side sends (banner lines + version line, line terminators included) is at most the 4096 bytes the transport "
    "allows; what follows the version line in the stream is not limited, however the stream is cut into deliveries",
    "payload message numbers are >= 50 (service range); transport-level noise is IGNORE/DEBUG only: up to 3 messages right behind the "
    "KEXINIT (short, or 1..5 KB), up to 4 short ones at any later point of a key exchange, IGNORE outside key exchanges",
    "the application may send from inside packetReceived; a synchronous pipe is a legal transport as long as each direction stays a FIFO "
    "and no protocol is re-entered in dataReceived (bytes written towards a protocol that is inside dataReceived reach it when that call "
    "has returned); sendPacket may therefore be entered while an outer sendPacket of the same transport is inside transport.write",
    "packet counters are 32-bit and wrap (RFC 4253 6.4); a connection's age is set by giving outgoingPacketSequence of one side and "
    "incomingPacketSequence of the other the same start value before the connection is made (2^32 real packets are out of reach)",
    "version strings are 'SSH-2.0-' (server also 'SSH-1.99-') + printable software version without '-'/space + optional comment; "
    "they are not checked against RFC 4253's 255-byte limit (all are shorter)",
    "a transport that called loseConnection() is not fed further input (what a real TCP transport does: stopReading)",
    "a further key exchange is started (sendKexInit) only by a side whose previous one is complete (anything else is refused with "
    "RuntimeError by contract); the supported* lists are changed only on both ends together while nothing is in flight",
    "a refused call is one that cannot be made into a packet: payload of type str/None, message number outside a byte; while a key "
    "exchange is in progress it is made with a message type that is sent straight away (IGNORE/DEBUG) - other types are put aside "
    "unseen until the key exchange ends, so there is no call-time refusal to speak of (for the same reason none is made between a side's "
    "own NEWKEYS and its peer's, where a transport may put everything aside).  No verdict on the refused call itself; it is "
    "not a payload sent, and everything sent before and after it must arrive",
    "in the tamper family 'disconnect' is demanded once the receiver got at least 1 MiB + the packet (a length field altered upwards "
    "makes any implementation wait for that many bytes); no demand if the sender's transport does not put the keep-talking IGNORE "
    "on the wire (it may hold it back at some point of a key exchange)",
]
LEVEL_NOTE = ("ciphertext is not reproducible (unseedable KEX randomness); with a CBC cipher a byte altered inside the first cipher block "
              "garbles the length field key-dependently (probability 2^-12 of a plausible length), which can change the step count but not the verdict")

HOST_KEY = keys.Key.fromFile(os.path.join(os.path.dirname(os.path.dirname(os.path.abspath(__file__))), "fixtures", "ssh_host_ed25519_key"))
CIPHERS = list(transport.SSHTransportBase.supportedCiphers)
MACS = list(transport.SSHTransportBase.supportedMACs)
COMPRESSIONS = list(transport.SSHTransportBase.supportedCompressions)
MAC_SIZE = {b"hmac-sha2-512": 64, b"hmac-sha2-384": 48, b"hmac-sha2-256": 32, b"hmac-sha1": 20, b"hmac-md5": 16}
BANNER_ALPHABET = b"abcdefghijklmnopqrstuvwxyz 0123456789.,:!"
MARKER = b"SSH-"
# text that looks like (part of) a version line; legal anywhere in a banner line except at its start
MARKER_TOKENS = (b"SSH-", b"SSH-2.0-", b"SSH-2.0-OpenSSH_9.6", b"SSH-1.99-", b"SSH-2", b"-SSH-")
# legal line starts that are one character away from the marker
NEAR_MISS_STARTS = (b"SSH", b"SSH_2.0", b"ssh-", b"SSH -", b"SH-", b"\tSSH-")
SOFTWARE_ALPHABET = b"abcdefghijklmnopqrstuvwxyzABCDEFGHIJKLMNOPQRSTUVWXYZ0123456789._+"
COMMENT_TOKENS = (b"x", b" ", b"-", b"SSH-", b"SSH-2.0-", b"2.0", b"Twisted")
NOISE_TOKENS = (b"x", b"\n", b"\r\n", b"SSH-", b"SSH-2.0-", b"\r", b" ", b"-", b"SSH-2.0-noise\n", b"\nSSH-2.0-noise\r\n")

FILLER = random.Random(35).randbytes(60000)     # fixed, incompressible keep-talking traffic for the tamper family

# Knobs that keep a run away from the preconditions of the findings this module met (all repaired in /repo): a delivery ending
# exactly at a banner line end; a version line split behind a banner line that mentions "SSH-"; a cleartext packet with a line starting
# with "SSH-" in the delivery that completes the version line; a host-key answer outstanding when the server's NEWKEYS arrives in a key
# exchange that is followed by another one.  Each run draws them: about 10% of the runs that could meet such a precondition stay away
# from it.  ALWAYS_AVOID = True (edit in a scratch copy, dev-time only) keeps every run away, so that a mutant is not answered for by them.
ALWAYS_AVOID = False
ASYNC_VERIFY_BEFORE_REKEY_P = 0.9
# Four genuine defects of the tree as first examined, found in round 6 and all REPAIRED in /repo (c6f8bdf, 7673e45, 808bd5c, aed555c; see
# MUTANTS): each precondition is let into the share of the runs its knob names (0.5 each), every verdict of a run that met the
# precondition carries the witness suffix given, and the other runs keep away from the precondition (probes *_avoided).  Setting a knob
# to 0 is only for dev-time comparison with a tree without the repair.
BIG_IDENT_DELIVERY_P = 0.5          # the delivery that completes the version line may make more than 4096 bytes together with what was
                                    # delivered before it (witness identification-within-4KiB+version-delivery-beyond-4KiB)
NOISE_IN_NEWKEYS_WINDOW_P = 0.5     # IGNORE/DEBUG may be sent between a side's own NEWKEYS and its peer's (+transport-message-between-own-and-peer-newkeys)
NESTED_SEND_P = 0.5                 # over the synchronous pipe an answer may be sent from inside the answered side's own sendPacket (+send-nested-in-send)
SEQ_WRAP_P = 0.5                    # an old connection's packet counters may be few enough packets before 2**32 to wrap (+sequence-number-wraps)
IDENT_LIMIT = 4096                  # what SSHTransportBase allows for banner lines + version line
BULK_TEXT = b"welcome to the machine; all activity may be logged. " * 24
MSG_NEWKEYS = transport.MSG_NEWKEYS


class Factory:
    publicKeys = {b"ssh-ed25519": HOST_KEY.public()}
    privateKeys = {b"ssh-ed25519": HOST_KEY}

    def getService(self, t, name):
        return None


class Recorder(service.SSHService):
    name = b"verif"

    def __init__(self, sim, who):
        self.sim, self.who = sim, who
        self.got = []
        self.stopped = 0

    def serviceStarted(self):
        pass

    def serviceStopped(self):
        self.stopped += 1

    answer = None        # set by run(): the application's reaction to a payload, from inside the dispatch

    def packetReceived(self, messageNum, payload):
        self.got.append((messageNum, payload))
        self.sim.event(self.who, "dispatch", messageNum, len(payload))
        if self.transport.newkeys_count > 1:
            self.sim.probe("payload_dispatched_after_rekey")
        if self.answer is not None:
            self.answer()


class _Observe:
    """Observation only: which transport.write belongs to which sendPacket, and where the new keys start."""

    def _init_obs(self):
        self.wire = []              # (write index, messageType, payload length, payload) per packet put on the wire
        self.newkeys_at = None      # index into transport.writes of the first packet protected by the new keys
        self.newkeys_count = 0      # completed key exchanges (1 = the initial one, more = re-keys)
        self.newkeys_sent = 0       # NEWKEYS messages put on the wire
        self.send_depth = 0         # sendPacket calls in progress (more than one: the pipe delivered from inside write())

    def sendPacket(self, messageType, payload):
        t = self.transport
        n0 = len(t.writes)
        self.send_depth += 1
        if self.send_depth > 1:
            self.h.nested_send = True
            self.h.sim.probe("send_nested_in_send")
        try:
            transport.SSHTransportBase.sendPacket(self, messageType, payload)
        finally:
            self.send_depth -= 1
        if len(t.writes) > n0:
            self.wire.append((n0, messageType, payload))
            if messageType == MSG_NEWKEYS:
                self.newkeys_sent += 1

    def _newKeys(self):
        if self.newkeys_at is None:
            self.newkeys_at = len(self.transport.writes)
        self.newkeys_count += 1
        if self.newkeys_count > 1:
            self.h.sim.probe("rekey_completed")
        return super()._newKeys()


class Client(_Observe, transport.SSHClientTransport):
    def __init__(self, h):
        self.h = h
        self._init_obs()
        self.secure = False

    def verifyHostKey(self, hostKey, fingerprint):
        return self.h.verify_host_key()

    def connectionSecure(self):
        self.secure = True

    def ssh_NEWKEYS(self, packet):
        # observation only: the server's NEWKEYS arrived while the application's answer about the host key was outstanding
        if self.h.pending_verify is not None:
            self.h.newkeys_overtook_verify = True
            self.h.sim.probe("newkeys_arrived_before_host_key_answer")
        return super().ssh_NEWKEYS(packet)


class Server(_Observe, transport.SSHServerTransport):
    def __init__(self, h):
        self.h = h
        self._init_obs()


class Harness:
    def __init__(self, sim):
        self.sim = sim
        self.pending_verify = None
        self.async_verify = False
        self.rekeys_left = 0
        self.async_before_rekey = True
        self.newkeys_overtook_verify = False
        self.rekey_after_overtaken_verify = False
        self.nested_send = False            # a sendPacket call ran inside another one of the same transport
        self.window_message = False         # a transport-level message was sent between a side's own NEWKEYS and its peer's

    def verify_host_key(self):
        if not self.async_verify:
            return defer.succeed(True)
        if self.rekeys_left and not self.async_before_rekey:
            # keeps the run away from the precondition of the re-key finding (see RULE): an answer that is still outstanding when
            # the server's NEWKEYS arrives, in a key exchange that is not the connection's last one
            self.sim.probe("async_verification_before_rekey_avoided")
            return defer.succeed(True)
        self.sim.probe("async_host_key_verification")
        self.pending_verify = defer.Deferred()
        return self.pending_verify


def run(sim):
    h = Harness(sim)
    cipher = sim.draw_choice(CIPHERS, "cipher")
    mac = sim.draw_choice(MACS, "mac")
    comp = sim.draw_choice(COMPRESSIONS, "compression")
    family = sim.draw_choice(["clean", "tamper"], "family")
    nbanner = sim.draw_weighted([(0, 3), (1, 3), (2, 2), (3, 1)], "nbanner")
    avoid_banner_split = sim.draw_bool(0.1, "avoid_banner_split") or ALWAYS_AVOID
    h.async_verify = sim.draw_bool(0.25, "async_verify")
    early_send = sim.draw_bool(0.3, "early_send")
    seg = sim.draw_choice(["mixed", "whole", "tiny", "big"], "segmentation")
    nsend = sim.draw_int(1, 8, "nsend")
    big_ok = sim.draw_bool(0.25, "big_payloads")
    banner_style = sim.draw_weighted([("plain", 5), ("mentions-marker", 3), ("near-miss-start", 1)], "banner_style")
    own_versions = sim.draw_bool(0.4, "own_version_strings")
    nnoise = sim.draw_weighted([(0, 5), (1, 3), (2, 2), (3, 1)], "early_noise")
    # the two knobs below keep most runs away from the preconditions of the version-line findings (see ident_verdict)
    allow_marker_split = sim.draw_bool(0.9, "allow_marker_split") and not ALWAYS_AVOID
    allow_marker_line_noise = sim.draw_bool(0.9, "allow_marker_line_noise") and not ALWAYS_AVOID
    # the connection's later life: further key exchanges started by either side at any moment (RFC 4253 section 9), which in the clean
    # family may move the connection to another cipher/MAC/compression, and calls the transport refuses (arguments no packet can be
    # built from) made by the application in between the proper ones
    nrekey = sim.draw_weighted([(0, 4), (1, 3), (2, 2), (3, 1)], "rekeys")
    renegotiate = sim.draw_bool(0.3, "renegotiate") and family == "clean" and nrekey > 0
    nrefuse = sim.draw_weighted([(0, 5), (1, 3), (2, 2)], "refused_calls")
    nsend += nrekey                     # something is left to say after a re-key
    h.rekeys_left = nrekey
    h.async_before_rekey = sim.draw_bool(ASYNC_VERIFY_BEFORE_REKEY_P, "async_verify_before_rekey") and not ALWAYS_AVOID
    # sizes, moments and the shape of the pipe (see the module docstring); the four allow_* knobs keep most runs away from the
    # preconditions of the findings listed at the knob constants
    long_banner = sim.draw_bool(0.12, "long_banner")
    bulky_noise = sim.draw_bool(0.15, "bulky_noise")
    kex_noise = sim.draw_weighted([(0, 3), (1, 3), (2, 2), (4, 1)], "noise_during_any_kex")
    nanswer = sim.draw_weighted([(0, 4), (1, 2), (2, 2), (4, 1)], "answers")
    sync_talk = sim.draw_bool(0.3, "synchronous_conversations") and family == "clean"
    age = sim.draw_weighted([("new", 6), ("old", 2)], "connection_age")
    allow_big_ident_delivery = sim.draw_bool(BIG_IDENT_DELIVERY_P, "allow_big_ident_delivery") and not ALWAYS_AVOID
    allow_window_message = sim.draw_bool(NOISE_IN_NEWKEYS_WINDOW_P, "allow_window_message") and not ALWAYS_AVOID
    allow_nested_send = sim.draw_bool(NESTED_SEND_P, "allow_nested_send") and not ALWAYS_AVOID
    allow_seq_wrap = sim.draw_bool(SEQ_WRAP_P, "allow_seq_wrap") and not ALWAYS_AVOID
    sim.config = {"cipher": cipher.decode(), "mac": mac.decode(), "compression": comp.decode(), "family": family, "banner_lines": nbanner,
                  "avoid_banner_split": avoid_banner_split, "async_verify": h.async_verify, "early_send": early_send,
                  "segmentation": seg, "nsend": nsend, "banner_style": banner_style, "own_version_strings": own_versions,
                  "early_noise": nnoise, "allow_marker_split": allow_marker_split, "allow_marker_line_noise": allow_marker_line_noise,
                  "rekeys": nrekey, "renegotiate": renegotiate, "refused_calls": nrefuse,
                  "async_verify_before_rekey": h.async_before_rekey,
                  "long_banner": long_banner, "bulky_noise": bulky_noise, "noise_during_any_kex": kex_noise, "answers": nanswer,
                  "synchronous_conversations": sync_talk, "connection_age": age, "allow_big_ident_delivery": allow_big_ident_delivery,
                  "allow_window_message": allow_window_message, "allow_nested_send": allow_nested_send, "allow_seq_wrap": allow_seq_wrap}
    amounts = {"mixed": (None, 1000, 64, 17, 8, 5, 3, 2, 1), "whole": (None,), "tiny": (8, 5, 3, 2, 1, 17), "big": (None, 1000, 300, 64)}[seg]

    client, server = Client(h), Server(h)
    server.factory = Factory()
    for p in (client, server):
        p.supportedKeyExchanges = [b"curve25519-sha256"]
        p.supportedPublicKeys = [b"ssh-ed25519"]
        p.supportedCiphers = [cipher]
        p.supportedMACs = [mac]
        p.supportedCompressions = [comp]
    svc = {"C": Recorder(sim, "client"), "S": Recorder(sim, "server")}
    link = net.Link(sim, client, server)
    tr = {"C": link.a, "S": link.b}
    proto = {"C": client, "S": server}
    side_of = {"A": "C", "B": "S"}
    sent = {"C": [], "S": []}            # service payloads handed to sendPacket by that side, in order
    steps = [0]

    # identification lines the server sends before its version string (RFC 4253 section 4.2)
    banner = b""
    line_ends = set()
    marker_in_banner = False
    for _ in range(nbanner):
        line = sim.draw_bytes(sim.draw_int(0, 30, "bannerlen"), BANNER_ALPHABET)
        kind = "plain" if banner_style == "plain" else sim.draw_choice([banner_style, "plain"], "linekind")
        if kind == "mentions-marker":
            # anywhere but at the start of the line: that is the only place RFC 4253 4.2 reserves
            at = sim.draw_int(1, max(1, len(line)), "at")
            line = (line[:at] or b" ") + sim.draw_choice(MARKER_TOKENS, "token") + line[at:]
            sim.probe("banner_line_mentions_version_marker")
        elif kind == "near-miss-start":
            line = sim.draw_choice(NEAR_MISS_STARTS, "start") + line
            sim.probe("banner_line_near_miss_start")
        assert not line.startswith(MARKER) and b"\n" not in line and b"\r" not in line
        marker_in_banner = marker_in_banner or MARKER in line
        banner += line + b"\r\n"
        line_ends.add(len(banner))
    if own_versions:
        for who, p in (("server", server), ("client", client)):
            if sim.draw_bool(0.7, "own"):
                v = b"SSH-" + (b"1.99" if who == "server" and sim.draw_bool(0.3, "1.99") else b"2.0") + b"-"
                v += sim.draw_bytes(sim.draw_int(1, 12, "swlen"), SOFTWARE_ALPHABET)
                comment = b"".join(sim.draw_choice(COMMENT_TOKENS, "ctok") for _ in range(sim.draw_int(0, 5, "ncomment"))).strip()
                if comment:
                    v += b" " + comment
                p.ourVersionString = v
                sim.probe("own_version_string")
                sim.event(who, "version-string", len(v), "marker-in-comment" if MARKER in v[4:] else "-")
    if long_banner:
        # many and/or long lines; the identification as a whole (lines + version line) stays within what the transport allows
        room = IDENT_LIMIT - (len(banner) + len(server.ourVersionString) + 2)
        target = sim.draw_choice([1500, 3000, room - 300, room - 1, room], "banner_bulk")
        added = 0
        while target - added >= 2:
            n = min(sim.draw_choice([64, 40, 80, 200, 1000], "bulk_line"), target - added)
            if target - added - n == 1:
                n += 1
            banner += BULK_TEXT[:n - 2] + b"\r\n"
            added += n
            line_ends.add(len(banner))
            nbanner += 1
        sim.probe("long_banner")
        sim.probe("identification_fills_the_limit", 1 if len(banner) + len(server.ourVersionString) + 2 == IDENT_LIMIT else 0)
    # the connection's age: the 32-bit packet counters of the two directions start where an earlier life of the connection left
    # them (RFC 4253 6.4: never reset, wrapping around) - at powers of two, or a few packets before the wrap
    seq0 = {"C": 0, "S": 0}
    if age == "old":
        for k in ("C", "S"):
            if sim.draw_bool(0.7, "old_direction"):
                if allow_seq_wrap:
                    seq0[k] = 2 ** 32 - sim.draw_int(1, 80, "packets_to_wrap")
                else:
                    seq0[k] = sim.draw_choice([65536, 2 ** 24, 2 ** 31, 2 ** 32 - 100000], "seq_near") - sim.draw_int(1, 40, "packets_to")
                    sim.probe("old_connection_far_from_wrap")
        client.outgoingPacketSequence = server.incomingPacketSequence = seq0["C"]
        server.outgoingPacketSequence = client.incomingPacketSequence = seq0["S"]
        sim.event("connection-age", "C" if seq0["C"] else "-", "S" if seq0["S"] else "-", "near-wrap" if allow_seq_wrap else "-")

    def seq_wraps():
        """A counter of a direction that started a few packets before 2**32 is about to pass it, or has (read off the counters only)."""
        for k, o in (("C", "S"), ("S", "C")):
            if seq0[k] >= 2 ** 32 - 80:
                for n in (proto[k].outgoingPacketSequence, proto[o].incomingPacketSequence):
                    if n + 16 >= 2 ** 32 or n < seq0[k]:
                        return True
        return False

    def circs():
        """The circumstances of the findings this module met (see the knob constants), read off the schedule only: they name the
        verdicts of the runs that met them."""
        c = "+rekey-after-newkeys-overtook-host-key-answer" if h.rekey_after_overtaken_verify else ""
        if h.window_message:
            c += "+transport-message-between-own-and-peer-newkeys"
        if h.nested_send:
            c += "+send-nested-in-send"
        if seq_wraps():
            sim.probe("sequence_number_at_the_wrap")
            c += "+sequence-number-wraps"
        return c

    old_random = randbytes.secureRandom
    randbytes.secureRandom = lambda n, fallback=False: sim.draw_blob(n)
    try:
        if banner:
            link.b.write(banner)
            sim.event("server", "banner", nbanner, len(banner))
        link.connect(a_first=sim.draw_bool(0.5, "server_first") is False)
        for k in ("C", "S"):
            proto[k].service = svc[k]
            svc[k].transport = proto[k]

        # cleartext transport-level messages behind the KEXINIT (RFC 4253 7.1 allows types 1..19 during key exchange); their content is
        # line-like text, i.e. what the receiver's identification parser must not look at once the version line has been found
        for _ in range(nnoise):
            s = sim.draw_choice(["C", "S"], "noise_sender")
            text = b"".join(sim.draw_choice(NOISE_TOKENS, "ntok") for _ in range(sim.draw_int(0, 6, "nntok")))
            if not allow_marker_line_noise and b"\n" + MARKER in NS(text):
                # (the length prefix counts: a 10-byte string is preceded by the byte 0x0a)
                text = text.replace(MARKER, b"SSH+")
                sim.probe("noise_marker_line_avoided")
            if bulky_noise:
                # (text that cannot be mistaken for a line: no CR/LF)
                bulk = sim.draw_choice([0, 1000, 3000, 5000, 3600], "noise_bulk")
                text += BULK_TEXT[:40] * (bulk // 40)
                sim.probe("bulky_cleartext_noise", 1 if bulk else 0)
            as_debug = sim.draw_bool(0.3, "debug")
            sim.event("client" if s == "C" else "server", "early-noise", "DEBUG" if as_debug else "IGNORE", len(text),
                      "marker-line" if b"\n" + MARKER in NS(text) else "-")
            sim.probe("cleartext_noise_during_initial_kex")
            with sim.guard("sendPacket-raised", s + "-early-noise"):
                if as_debug:
                    proto[s].sendDebug(text, sim.draw_bool(0.5, "display"))
                else:
                    proto[s].sendIgnore(text)

        # ------------------------------------------------------------ identification verdict (after every delivery, both directions)
        ident_start = {"A": len(banner), "B": 0}                                   # offset of the version line in the stream towards that side
        ident_end = {"A": len(banner) + len(server.ourVersionString) + 2, "B": len(client.ourVersionString) + 2}
        peer_version = {"A": server.ourVersionString, "B": client.ourVersionString}
        circumstance = {}

        def deliver(name, amount, label):
            before = len(link.delivered[name])
            if before < ident_end[name]:
                # the delivery that completes the version line may be of any size, whatever was delivered before it
                avail = len(link.flight[name])
                n = avail if amount is None else max(1, min(amount, avail))
                if before + n > IDENT_LIMIT:
                    if allow_big_ident_delivery:
                        sim.probe("version_delivery_beyond_4KiB")
                    else:
                        amount = IDENT_LIMIT - before
                        sim.probe("version_delivery_beyond_4KiB_avoided")
            with sim.guard("transport-raised", side_of[name] + "-" + label + circs()):
                link.do("deliver", name, amount)
            if before < ident_end[name]:
                ident_verdict(name, len(link.delivered[name]))

        def ident_verdict(name, got):
            """The version line is recognised exactly when it is complete, it is the line the peer sent, and nothing of the identification
            makes the receiver hang up.  The witness names the circumstance, read off the wire only."""
            p, t = proto[side_of[name]], tr[side_of[name]]
            who = "client" if name == "A" else "server"
            complete = got >= ident_end[name]
            circ = None
            if complete and got > IDENT_LIMIT:
                circ = "identification-within-4KiB+version-delivery-beyond-4KiB"
            elif not complete and got in line_ends and name == "A":
                circ = "banner-line-end-at-segment-boundary"
                sim.probe("delivery_ends_at_banner_line_end")
            elif not complete and name == "A" and marker_in_banner and got >= ident_start[name] + len(MARKER):
                circ = "version-marker-inside-banner-line+version-line-split"
                sim.probe("version_line_split_behind_marker_banner")
            elif complete and b"\n" + MARKER in bytes(link.delivered[name][ident_end[name] - 1:got]):
                circ = "version-marker-line-in-packet-data-behind-version-line"
                sim.probe("marker_line_in_version_delivery")
            # while the version line is incomplete the last special circumstance met by this receiver names its later verdicts too
            # (the damage may show one delivery later)
            if circ is not None:
                circumstance[name] = circ
            elif not complete:
                circ = circumstance.get(name)
            if circ is None:
                circ = who + "-after-ident" if complete else "other"
            if complete and got > ident_end[name]:
                sim.probe("version_delivery_carries_packet_data")
            sim.check("version-exchange", bool(p.gotVersion) == complete, circ,
                      lambda: "%s: %d of %d identification bytes delivered (version line %s) but gotVersion=%s"
                      % (who, min(got, ident_end[name]), ident_end[name], "complete" if complete else "incomplete", p.gotVersion))
            if complete:
                sim.check("version-exchange", p.otherVersionString == peer_version[name], circ,
                          lambda: "%s took %r for the peer's version string; the peer sent %r" % (who, p.otherVersionString, peer_version[name]))
            sim.check("version-exchange", not t.disconnecting or tam["done"], circ,
                      lambda: "%s disconnected %s the peer's version string was complete: %d identification byte(s), %d delivered so far"
                      % (who, "in the delivery in which" if complete else "before", ident_end[name], got))

        # ------------------------------------------------------------ tampering
        tam = {"want": family == "tamper", "done": False}
        if tam["want"]:
            tam["dir"] = sim.draw_choice(["C", "S"], "tamper_sender")
            # (with re-keys the later packets include those of a key exchange run under the old keys and the first ones under the new keys)
            tam["index"] = sim.draw_weighted([(0, 5), (1, 4), (2, 2), (3, 1), (5, 1)] + ([(8, 2), (13, 1)] if nrekey else []), "tamper_packet")

        def maybe_tamper():
            if not tam["want"] or tam["done"]:
                return
            s = tam["dir"]
            p, t = proto[s], tr[s]
            if p.newkeys_at is None or len(t.writes) <= p.newkeys_at + tam["index"]:
                return
            w = p.newkeys_at + tam["index"]
            plen = len(t.writes[w])
            tail = sum(len(x) for x in t.writes[w:])
            start = len(t.out) - tail           # the packet was written during the last action, so it is still wholly in .out
            assert start >= 0, "tamper target already left the sender"
            ms = MAC_SIZE[mac]
            region = sim.draw_choice(["body", "mac", "length", "padlen", "any"], "tamper_region")
            if region == "length":
                off = sim.draw_int(0, 3, "off")
            elif region == "padlen":
                off = 4
            elif region == "mac":
                off = plen - ms + sim.draw_int(0, ms - 1, "off")
            elif region == "body":
                off = sim.draw_int(5, max(5, plen - ms - 1), "off")
            else:
                off = sim.draw_int(0, plen - 1, "off")
            x = 1 + sim.draw_int(0, 254, "xor")
            t.out[start + off] ^= x
            tam.update(done=True, write=w, plen=plen, off=off, region=region)
            # what the receiver may still dispatch: service packets put on the wire before the altered one
            tam["expect"] = [(mt, pl) for (wi, mt, pl) in p.wire if wi < w and mt >= 50]
            sim.fault("tamper_" + region)
            sim.event("network", "tamper", "from", s, "packet", tam["index"], "len", plen, "offset", off, region)

        # ------------------------------------------------------------ scheduler
        def usable(ev):
            out = []
            for kind, name in ev:
                t = link.a if name == "A" else link.b
                if kind == "deliver" and t.disconnecting:
                    continue                    # a closing TCP transport has stopped reading
                out.append((kind, name))
            return out

        def net_step(only=None):
            ev = usable(link.enabled())
            if only is not None:
                ev = [e for e in ev if only(e)]
            if not ev:
                return False
            steps[0] += 1
            kind, name = sim.draw_choice(ev, "net")
            amount = None
            if kind in ("xmit", "deliver") and steps[0] < 1500:
                amount = sim.draw_choice(amounts, "amount")
                if amount is not None:
                    sim.fault("segmentation")
            if kind == "deliver":
                deliver(name, amount, kind)
            else:
                with sim.guard("transport-raised", side_of[name] + "-" + kind + circs()):
                    link.do(kind, name, amount)
            maybe_tamper()
            return True

        # ------------------------------------------------------------ phase 1: the server's identification reaches the client
        server_ident = len(banner) + len(server.ourVersionString) + 2
        link.do("xmit", "B")
        maybe_tamper()
        pieces = net.cut(sim, bytes(link.flight["A"][:server_ident]), boundaries=sorted(line_ends) + [server_ident],
                         style=sim.draw_choice(["whole", "one", "few", "edges", "many"], "long_cutstyle") if long_banner else None)
        def keep_away(end):
            # the preconditions of the identification findings: a delivery ending exactly at the end of a banner line (fixed in /repo), or
            # inside the version line (marker already there) behind a banner line that mentions the marker
            if avoid_banner_split and end in line_ends:
                sim.probe("banner_line_end_avoided")
                return True
            if marker_in_banner and not allow_marker_split and len(banner) + len(MARKER) <= end < server_ident:
                sim.probe("marker_version_line_split_avoided")
                return True
            return False

        # the delivery that completes the version line may carry (some of) the packets behind it
        tail = sim.draw_choice([0, None, 1, 5, 40, 300], "ident_tail")
        cum = 0
        k = 0
        while k < len(pieces):
            piece = pieces[k]
            k += 1
            if k < len(pieces) and keep_away(cum + len(piece)):
                pieces[k] = piece + pieces[k]
                continue
            cum += len(piece)
            amount = len(piece)
            if k == len(pieces) and tail != 0:
                amount = None if tail is None else amount + tail
            sim.event("client", "ident-delivery", len(piece), "line-end" if cum in line_ends else "-",
                      "+tail" if amount != len(piece) else "-")
            deliver("A", amount, "ident")
            maybe_tamper()
            for _ in range(sim.draw_int(0, 2, "interleave")):
                net_step(only=lambda e: e != ("deliver", "A"))
        sim.check("version-exchange", client.gotVersion and not link.a.disconnecting, "client-after-ident",
                  "client did not accept the server's identification (gotVersion=%s disconnecting=%s)" % (client.gotVersion, link.a.disconnecting))

        # ------------------------------------------------------------ phase 2: key exchange + payloads under the tape's schedule
        def payload():
            cls = sim.draw_weighted([("small", 6), ("empty", 1), ("medium", 3), ("big", 2 if big_ok else 0)], "psize")
            n = {"empty": 0, "small": sim.draw_int(1, 32, "n"), "medium": sim.draw_int(33, 2000, "n"),
                 "big": sim.draw_choice([40000, 32768, 35000 - 6, 16384, 8191], "n")}[cls]
            if n and sim.draw_bool(0.4, "compressible"):
                return bytes([sim.draw_int(0, 255, "fill")]) * n
            return sim.draw_blob(n)

        def can_send(s):
            p, t = proto[s], tr[s]
            if t.disconnecting or t.disconnected or link.a.disconnecting or link.b.disconnecting:
                return False
            if early_send:
                return True
            return p.newkeys_at is not None and p._keyExchangeState == p._KEY_EXCHANGE_NONE

        def alive(s):
            return not (tr[s].disconnecting or tr[s].disconnected or link.a.disconnecting or link.b.disconnecting)

        def established(s):
            # the side's initial key exchange is over and it is not in the middle of another one
            return proto[s].newkeys_at is not None and proto[s]._keyExchangeState == proto[s]._KEY_EXCHANGE_NONE

        def idle():
            return established("C") and established("S") and not link.enabled() and h.pending_verify is None

        def in_window(s):
            # the side's NEWKEYS of the key exchange in progress is on the wire, the peer's has not arrived (read off the wire)
            return proto[s].newkeys_sent > proto[s].newkeys_count

        def noise_senders():
            out = []
            for s in ("C", "S"):
                if not (noise_left[0] and alive(s) and tr[s].connected and proto[s]._keyExchangeState != proto[s]._KEY_EXCHANGE_NONE):
                    continue
                if in_window(s) and not allow_window_message:
                    sim.probe("message_between_own_and_peer_newkeys_avoided")
                    continue
                out.append(s)
            return out

        # ------------------------------------------------------------ applications that answer from inside the dispatch
        answers = [nanswer]                 # answers left to give (a conversation brings its own)
        talking = [False]

        def answer(me):
            if answers[0] <= 0 or not alive(me) or not sim.draw_bool(0.8 if talking[0] else 0.5, "answer"):
                return
            if proto[me].send_depth and not allow_nested_send:
                # keeps the run away from the precondition of the nested-send finding: this dispatch runs inside our own sendPacket
                sim.probe("send_nested_in_send_avoided")
                return
            answers[0] -= 1
            mt = sim.draw_choice([94, 50, 90, 255, 80, 100], "msgtype")
            pl = sim.draw_blob(sim.draw_int(0, 24, "n"))
            sent[me].append((mt, pl))
            sim.probe("payload_sent_from_inside_dispatch")
            sim.event("client" if me == "C" else "server", "answer", mt, len(pl),
                      "queued" if proto[me]._keyExchangeState != proto[me]._KEY_EXCHANGE_NONE else "now")
            with sim.guard("sendPacket-raised", me + "-answer" + circs()):
                proto[me].sendPacket(mt, pl)

        svc["C"].answer = lambda: answer("C")
        svc["S"].answer = lambda: answer("S")

        # ------------------------------------------------------------ the connection as a synchronous in-memory pipe (for a conversation)
        busy = {"A": False, "B": False}

        def sync_write(t, data):
            # write() hands everything written so far to the peer at once; each direction stays a FIFO
            link.do("xmit", t.name)
            sync_pump(t.peer_t.name)

        def sync_pump(name):
            if busy[name]:
                # that protocol is inside dataReceived: it gets the bytes when the call has returned
                sim.probe("sync_write_queued_behind_running_delivery")
                return
            busy[name] = True
            try:
                t = link.a if name == "A" else link.b
                while link.flight[name] and not t.disconnecting and not t.disconnected:
                    steps[0] += 1
                    amount = sim.draw_choice(amounts, "amount") if steps[0] < 1500 else None
                    if amount is not None:
                        sim.fault("segmentation")
                    if busy["B" if name == "A" else "A"]:
                        sim.probe("sync_delivery_nested_in_peer_delivery")
                    deliver(name, amount, "sync-deliver")
            finally:
                busy[name] = False

        remaining = nsend
        refusals_left = nrefuse
        noise_left = [kex_noise]
        undefined = set()                   # senders whose output stopped being predictable (a refused call was made into a packet)
        guard_steps = 0
        while True:
            guard_steps += 1
            sim.step(20000)
            rekeyers = [s for s in ("C", "S") if h.rekeys_left and remaining and alive(s) and established(s)]
            # a refused call: any time the connection is up; while a key exchange is in progress only with a message type that is sent
            # straight away (others are put aside unseen until the key exchange ends - no call-time verdict to be had)
            # (not between a side's own NEWKEYS and its peer's: a transport may put everything aside there)
            refusers = [s for s in ("C", "S") if refusals_left and remaining and alive(s) and tr[s].connected and not in_window(s)]
            noisers = noise_senders()
            ops = [("net", 10 if usable(link.enabled()) else 0),
                   ("sendC", 3 if (remaining and can_send("C")) else 0),
                   ("sendS", 3 if (remaining and can_send("S")) else 0),
                   ("verify", 4 if h.pending_verify is not None else 0),
                   ("ignore", 1 if (remaining and not early_send and (can_send("C") or can_send("S"))) else 0),
                   ("rekey", 2 if rekeyers else 0),
                   ("refuse", 1 if refusers else 0),
                   ("kexnoise", 2 if noisers else 0),
                   ("converse", 2 if (sync_talk and remaining and established("C") and established("S") and alive("C") and alive("S")) else 0)]
            if not any(w for _, w in ops):
                break
            op = sim.draw_weighted(ops, "op")
            if op == "net":
                net_step()
            elif op in ("sendC", "sendS"):
                s = op[-1]
                mt = sim.draw_choice([94, 50, 90, 255, 80, 100], "msgtype")
                pl = payload()
                remaining -= 1
                sent[s].append((mt, pl))
                sim.event("client" if s == "C" else "server", "send", mt, len(pl),
                          "queued" if proto[s]._keyExchangeState != proto[s]._KEY_EXCHANGE_NONE else "now")
                if proto[s]._keyExchangeState != proto[s]._KEY_EXCHANGE_NONE:
                    sim.probe("payload_queued_during_kex")
                with sim.guard("sendPacket-raised", s + circs()):
                    proto[s].sendPacket(mt, pl)
                maybe_tamper()
            elif op == "verify":
                d, h.pending_verify = h.pending_verify, None
                sim.event("client", "host-key-verified")
                with sim.guard("transport-raised", "C-verify" + circs()):
                    d.callback(True)
                maybe_tamper()
            elif op == "ignore":
                s = "C" if can_send("C") else "S"
                sim.event("client" if s == "C" else "server", "sendIgnore")
                with sim.guard("sendPacket-raised", s + circs()):
                    proto[s].sendIgnore(sim.draw_blob(sim.draw_int(0, 40, "n")))
                maybe_tamper()
            elif op == "rekey":
                s = sim.draw_choice(rekeyers, "rekey_side")
                o = "S" if s == "C" else "C"
                how = "same-algorithms"
                if renegotiate and sim.draw_bool(0.6, "change"):
                    # both ends are reconfigured while nothing is in flight, so that the two KEXINITs of this exchange agree: let the
                    # link drain first (under the tape's segmentation)
                    while not idle() and alive(s):
                        sim.step(20000)
                        if h.pending_verify is not None:
                            d, h.pending_verify = h.pending_verify, None
                            sim.event("client", "host-key-verified")
                            with sim.guard("transport-raised", "C-verify"):
                                d.callback(True)
                        elif not net_step():
                            break
                if renegotiate and idle() and alive(s) and established(s) and sim.draw_bool(0.8, "change2"):
                    cipher2, mac2, comp2 = sim.draw_choice(CIPHERS, "cipher"), sim.draw_choice(MACS, "mac"), sim.draw_choice(COMPRESSIONS, "compression")
                    for p in (client, server):
                        p.supportedCiphers, p.supportedMACs, p.supportedCompressions = [cipher2], [mac2], [comp2]
                    how = "/".join(x.decode() for x in (cipher2, mac2, comp2))
                    sim.probe("rekey_renegotiates_algorithms")
                crossing = proto[o]._keyExchangeState == proto[o]._KEY_EXCHANGE_REQUESTED
                if crossing:
                    sim.probe("rekey_requested_by_both_sides")
                sim.event("client" if s == "C" else "server", "rekey", how, "crossing" if crossing else "-")
                sim.fault("rekey")
                h.rekeys_left -= 1
                if h.newkeys_overtook_verify and not h.rekey_after_overtaken_verify:
                    h.rekey_after_overtaken_verify = True
                    sim.probe("rekey_after_newkeys_overtook_host_key_answer")
                with sim.guard("transport-raised", s + "-rekey" + circs()):
                    proto[s].sendKexInit()
                maybe_tamper()
            elif op == "refuse":
                s = sim.draw_choice(refusers, "refuse_side")
                p = proto[s]
                refusals_left -= 1
                in_kex = p._keyExchangeState != p._KEY_EXCHANGE_NONE
                kind = sim.draw_choice(["str-payload", "none-payload"] + ([] if in_kex else ["msgnum-above-255", "msgnum-negative"]), "refusal")
                mt = sim.draw_choice([transport.MSG_IGNORE, transport.MSG_DEBUG] if in_kex else [94, transport.MSG_IGNORE, 50, 255], "msgtype")
                args = {"str-payload": (mt, "text"), "none-payload": (mt, None),
                        "msgnum-above-255": (256 + sim.draw_int(0, 300, "above"), b"x"), "msgnum-negative": (-1 - sim.draw_int(0, 300, "below"), b"x")}[kind]
                n0 = len(tr[s].writes)
                try:
                    p.sendPacket(*args)
                    outcome = "accepted"
                except Exception:
                    outcome = "raised"
                wrote = len(tr[s].writes) > n0
                sim.event("client" if s == "C" else "server", "refused-call", kind, "in-kex" if in_kex else "-", outcome, "wrote" if wrote else "-")
                if outcome == "raised":
                    sim.fault("refused_" + kind)
                elif wrote:
                    undefined.add(s)            # the transport made a packet out of it: no telling what the peer should get
                maybe_tamper()
            elif op == "kexnoise":
                # a message a transport may send while a key exchange is in progress (RFC 4253 7.1), at whatever point that exchange is
                s = sim.draw_choice(noisers, "noise_side")
                as_debug = sim.draw_bool(0.3, "debug")
                noise_left[0] -= 1
                window = in_window(s)
                if window:
                    h.window_message = True
                    sim.probe("message_between_own_and_peer_newkeys")
                sim.probe("noise_during_later_kex" if proto[s].newkeys_count else "noise_inside_initial_kex")
                sim.event("client" if s == "C" else "server", "kex-noise", "DEBUG" if as_debug else "IGNORE", "after-own-NEWKEYS" if window else "-")
                text = sim.draw_blob(sim.draw_int(0, 40, "n"))
                with sim.guard("sendPacket-raised", s + "-kex-noise" + circs()):
                    if as_debug:
                        proto[s].sendDebug(text, sim.draw_bool(0.5, "display"))
                    else:
                        proto[s].sendIgnore(text)
                maybe_tamper()
            elif op == "converse":
                # for one exchange the connection is a synchronous pipe: the payload is handed to the peer from inside sendPacket, the
                # peer's application answers from inside its packetReceived, the answer is dispatched here while our sendPacket is
                # still running, our application answers that ...
                s = sim.draw_choice(["C", "S"], "talker")
                mt = sim.draw_choice([94, 50, 90, 255, 80, 100], "msgtype")
                pl = payload()
                remaining -= 1
                sent[s].append((mt, pl))
                mine, answers[0] = answers[0], sim.draw_int(1, 4, "conversation_answers")
                sim.event("client" if s == "C" else "server", "converse", mt, len(pl), answers[0])
                sim.probe("synchronous_conversation")
                talking[0] = True
                link.a.on_write = link.b.on_write = sync_write
                try:
                    with sim.guard("sendPacket-raised", s + "-converse" + circs()):
                        proto[s].sendPacket(mt, pl)
                finally:
                    link.a.on_write = link.b.on_write = None
                    talking[0] = False
                    answers[0] = mine
            if remaining == 0 and not usable(link.enabled()) and h.pending_verify is None:
                break

        # ------------------------------------------------------------ verdict
        kex_done = client.newkeys_at is not None and server.newkeys_at is not None
        # the circumstance of the re-key finding (see RULE), read off the schedule only, names the verdicts of the runs that met it
        circ = circs()
        for k, o in (("C", "S"), ("S", "C")):
            if seq0[k] and not seq0[k] <= proto[k].outgoingPacketSequence < 2 ** 32:
                sim.probe("sequence_number_passed_the_wrap")
        if tam["want"] and tam["done"]:
            s = tam["dir"]
            r = "S" if s == "C" else "C"
            # a length field altered upwards makes the receiver wait for the claimed length: keep the sender talking
            # (no draws, no events: how long this takes depends on the key only for CBC first-block damage)
            filler = 0
            mute = False
            answers[0] = 0
            w0 = len(tr[s].written)
            # (IGNORE may be sent in any key exchange state: the sender may be left waiting inside a re-key that the altered packet was part of)
            while (not tr[r].disconnecting and not tr[r].disconnected and not tr[s].disconnecting and not tr[s].disconnected
                   and len(tr[s].written) - w0 < 1048576 + 70000):
                n0 = len(tr[s].written)
                proto[s].sendIgnore(FILLER)
                if len(tr[s].written) == n0:
                    mute = True         # (a transport may hold IGNORE back at some point of a key exchange)
                    break
                filler += 1
                if tr[s].out:
                    link.do("xmit", "A" if s == "C" else "B")
                if link.flight["A" if r == "C" else "B"]:
                    with sim.guard("transport-raised", r + "-filler"):
                        link.do("deliver", "A" if r == "C" else "B")
            if filler:
                sim.probe("tamper_needed_filler")
            got = svc[r].got
            exp = tam["expect"]
            sim.check("tampered-payload-not-dispatched", len(got) <= len(exp), tam["region"] + circ,
                      lambda: "receiver dispatched %d payloads but only %d were sent before the altered packet (altered byte %d of a %d-byte packet, %s %s %s)"
                      % (len(got), len(exp), tam["off"], tam["plen"], cipher.decode(), mac.decode(), comp.decode()))
            # (no verdict when the receiver is still waiting for the length the altered packet claims and the sender cannot say more)
            sim.check("tamper-detected", tr[r].disconnecting or tr[r].disconnected or mute, tam["region"] + circ,
                      lambda: "one byte (offset %d, region %s) of a %d-byte MAC-protected packet was altered and the receiver did not disconnect (%s %s %s)"
                      % (tam["off"], tam["region"], tam["plen"], cipher.decode(), mac.decode(), comp.decode()))
            sim.check("payloads-before-tamper", got == exp or s in undefined, tam["region"] + circ,
                      lambda: "receiver dispatched %s; sent before the altered packet: %s" % (_brief(got), _brief(exp)))
            # the other direction: no verdict on completeness (the connection was torn down), but never anything unsent/reordered
            back = svc[s].got
            sim.check("reverse-direction-prefix", back == sent[r][:len(back)] or r in undefined, "tamper-run" + circ,
                      lambda: "dispatched %s is not a prefix of what the peer sent %s" % (_brief(back), _brief(sent[r])))
        else:
            for s, r in (("C", "S"), ("S", "C")):
                if s in undefined:
                    continue
                sim.check("payloads-delivered", svc[r].got == sent[s], "to-" + ("server" if r == "S" else "client") + circ,
                          lambda: "sent %s; dispatched %s (kex_done=%s %s %s %s, key exchanges completed: sender %d receiver %d, refused calls made %d, "
                          "sender disconnecting=%s receiver disconnecting=%s)"
                          % (_brief(sent[s]), _brief(svc[r].got), kex_done, cipher.decode(), mac.decode(), comp.decode(),
                             proto[s].newkeys_count, proto[r].newkeys_count, nrefuse - refusals_left, tr[s].disconnecting, tr[r].disconnecting))
            sim.check("key-exchange-completes", kex_done, "clean-run" + circ,
                      "nothing was altered, the link is quiescent, and the key exchange did not complete (client newkeys=%s server newkeys=%s)"
                      % (client.newkeys_at is not None, server.newkeys_at is not None))
            sim.check("no-disconnect", not (link.a.disconnecting or link.b.disconnecting or link.a.disconnected or link.b.disconnected) or bool(undefined),
                      "clean-run" + circ, "a side disconnected although nothing was altered")
        sim.state((cipher.decode(), mac.decode(), comp.decode(), family, bool(tam["done"]), nbanner > 0, min(client.newkeys_count, 2)))
        dispatched = len(svc["C"].got) + len(svc["S"].got)
        sim.nontrivial = bool(kex_done and dispatched and sim.faults.get("segmentation", 0) and (family == "clean" or tam["done"]))
    finally:
        randbytes.secureRandom = old_random
        for dc in sim.clock.getDelayedCalls():
            dc.cancel()


def _brief(lst):
    return "[" + ", ".join("%d:%dB" % (mt, len(pl)) for mt, pl in lst[:12]) + (", ..." if len(lst) > 12 else "") + "]"


# Sensitivity (tools/mutate.py C35 --sub src/twisted/conch/ssh/transport.py ...; the first twelve were tried while the identification
# findings were still open, with every run kept away from their preconditions - see ALWAYS_AVOID):
MUTANTS = [
    "getPacket: incomingPacketSequence not incremented -> CAUGHT (payloads-delivered / payloads-before-tamper)",
    "makeMAC and verify both computed over packet[:-1] (last padding byte outside the MAC) -> CAUGHT (tampered-payload-not-dispatched / tamper-detected)",
    "getPacket: waits for packetLen+4 instead of packetLen+4+ms (consumes a packet whose MAC is still in flight) -> CAUGHT (payloads-delivered, no-disconnect)",
    "verify: compares only the first 8 MAC bytes -> CAUGHT (tamper-detected:mac / tampered-payload-not-dispatched)",
    "getPacket: decrypted first block not kept across deliveries (`self.first = first` removed) -> CAUGHT (payloads-delivered)",
    "_newKeys: messages queued during key exchange flushed in reverse order -> CAUGHT (payloads-delivered / reverse-direction-prefix)",
    "dataReceived: leftover after the version line cut at the newline following the FIRST 'SSH-' of the buffer instead of after the line that "
    "starts with it (seeded C35-r3) -> CAUGHT (version-exchange:client-after-ident; needs a banner line that mentions the marker mid-line)",
    "dataReceived: leftover lines re-joined with b'' instead of b'\\n' -> CAUGHT (version-exchange:server-after-ident / key-exchange-completes; "
    "needs packet bytes containing 0x0a in the delivery that completes the version line)",
    "dataReceived: version line = first line CONTAINING 'SSH-' -> CAUGHT (version-exchange:client-after-ident / other)",
    "dataReceived: otherVersionString cut at the first space (comment dropped) -> CAUGHT (version-exchange:*-after-ident; needs own version strings with a comment)",
    "dataReceived: protocol version taken from the second-to-last '-' field -> CAUGHT (version-exchange:*-after-ident; needs '-' in software version/comment)",
    "dataReceived: leftover .lstrip()ped -> not caught, equivalent (the leftover starts with the 0x00 of a packet length)",
    "_newKeys: deflate stream kept across key exchanges while the inflater is restarted (seeded C35-r5a) -> CAUGHT (payloads-delivered / "
    "no-disconnect / payloads-before-tamper; needs zlib and a re-key followed by a payload)",
    "_newKeys: inflater kept across key exchanges while the deflate stream is restarted (mirror of r5a) -> CAUGHT (payloads-delivered / no-disconnect)",
    "_newKeys: outgoingCompression cleared when the new outgoing compression is 'none', incomingCompression left alone -> CAUGHT "
    "(payloads-delivered / no-disconnect; needs a re-key that renegotiates zlib -> none)",
    "_newKeys: outgoingPacketSequence reset to 0 -> CAUGHT (payloads-delivered, already at the initial key exchange)",
    "sendPacket: sequence number consumed before the packet is built (seeded C35-r5b) -> CAUGHT (payloads-delivered / no-disconnect; needs a "
    "refused call followed by a payload)",
    "dataReceived: identification limit `> 4096` -> `>= 4096` -> CAUGHT (version-exchange; needs an identification of exactly 4096 bytes); "
    "`> 4000` -> CAUGHT (needs a long banner)",
    "FINDING 1, genuine defect of the tree as first examined, REPAIRED in /repo c6f8bdf (knob BIG_IDENT_DELIVERY_P = 0.5 lets the precondition into half of the "
    "runs; 0 only for dev-time comparison): dataReceived applied the 4096-byte identification limit to everything "
    "buffered when the version line had arrived, packets behind it included: a legal identification (<= 4096 bytes) followed by packets in "
    "ONE delivery of more than 4096 bytes in all (3.8 KB banner + version line + KEXINIT; or version line + KEXINIT + a 4 KB IGNORE towards "
    "the server) was answered with DISCONNECT, the same stream cut behind the version line was accepted -> version-exchange:"
    "identification-within-4KiB+version-delivery-beyond-4KiB.  Repair: the limit applies only while no version line is found.",
    "FINDING 2, genuine defect of the tree as first examined, REPAIRED in /repo 7673e45 (knob NOISE_IN_NEWKEYS_WINDOW_P = 0.5; 0 only for dev-time comparison): "
    "both directions switched to the new keys when the PEER's NEWKEYS arrived, so IGNORE/"
    "DEBUG/UNIMPLEMENTED sent between our own NEWKEYS and the peer's went out under the old keys (cleartext in the first key exchange) behind "
    "our NEWKEYS (RFC 4253 7.3: everything after NEWKEYS uses the new keys); the peer read them with the new keys: 'bad packet length'/"
    "'bad MAC', connection and all later payloads lost -> payloads-delivered:* / no-disconnect:* / payloads-before-tamper:* with suffix "
    "+transport-message-between-own-and-peer-newkeys.  Repair: every message is put aside from our NEWKEYS until _newKeys().",
    "FINDING 3, genuine defect of the tree as first examined, REPAIRED in /repo 808bd5c (knob NESTED_SEND_P = 0.5; 0 only for dev-time comparison): "
    "sendPacket incremented outgoingPacketSequence after transport.write; over a pipe that delivers "
    "from inside write() the peer's answer was dispatched and answered while the outer call was still in write: the nested packet was "
    "authenticated with the outer packet's sequence number -> peer: 'bad MAC' -> payloads-delivered:*+send-nested-in-send (this is the "
    "situation seeded change C35-r5b claimed to repair).  Repair: increment before write (after the packet is built).",
    "FINDING 4, genuine defect of the tree as first examined, REPAIRED in /repo aed555c (knob SEQ_WRAP_P = 0.5; 0 only for dev-time comparison): "
    "the packet counters never wrapped: at 2^32 makeMAC/verify raised struct.error out of sendPacket/"
    "dataReceived -> sendPacket-raised:*+sequence-number-wraps:error / transport-raised:*+sequence-number-wraps:error.  Repair: "
    "`(n + 1) & 0xFFFFFFFF` in sendPacket and getPacket.",
    "with the repairs applied (dev-time, before they were committed to /repo) and all four knobs at 0.9: 3 x 16000 runs clean, all nine seeded changes (four of them rebased) "
    "still caught; on top of that: incoming counter not wrapped -> CAUGHT (transport-raised:*+sequence-number-wraps); outgoing increment "
    "moved back behind transport.write -> CAUGHT (+send-nested-in-send); _newKeysSent set by the server only -> CAUGHT "
    "(+transport-message-between-own-and-peer-newkeys)",
]
