"""C52 — atomic file replacement keeps old or new content at every crash point.

Engine E6 (fs): FilePath.setContent and sob.Persistent.save run against a real
scratch directory with every mutating call interposed.  For each tape-drawn
case (old content or none, new content, buffer size, API variant) EVERY crash
point is enumerated — each interposed call, and for each kernel write several
torn lengths — then the directory is inspected as a restarted process would
find it.

Two further per-run families widen "at any point" and "the target path":
  * the length of the target's basename (ordinary, long, within 40 bytes of the
    directory's NAME_MAX — the temporary file next to the target has a longer
    name than the target, so near the limit it cannot be created at all);
  * errno faults: one interposed call fails with an errno (ENOSPC, EACCES,
    ENAMETOOLONG, EMFILE, EEXIST, EXDEV, EIO, ...), the operation carries on or
    gives up, and every crash point of whatever it does AFTER the failed call
    is enumerated too (fault, then crash, inside one operation).
Two more families widen "the target path" and "a persisted application is saved":
  * what kind of directory entry the target is before the operation: an ordinary
    one-name file, a file that has a second hard link (in the same or in another
    directory), a symbolic link to a file elsewhere, a dangling symbolic link;
  * how the application is persisted: Persistent style "pickle" or "source"
    (setStyle), default name, tagged name (save(tag=...)) or explicit filename.
One more family widens "partial write length" from the crash case to the live
one:
  * short writes: a kernel write accepts only part of its buffer and returns the
    count WITHOUT failing (disk or quota filling up in the middle of the buffer,
    RLIMIT_FSIZE); a buffered file object then writes the rest with further
    kernel writes - the next one succeeds, or fails with ENOSPC/EFBIG/EDQUOT/EIO
    - while a raw (buffering=0) one hands the short count to its caller.  The
    executions with a short write, and the crash points after it, are inspected
    like those of the errno family.
An operation that reports failure (raises) is held to the same old-or-new
oracle as a crashed one; one that returns normally must have stored the new
content.
"""
import errno
import hashlib
import io
import os
import pickle

from twisted.persisted import aot, sob
from twisted.python import filepath

from detsim import fs as simfs

ID = "C52"
ENGINE = "fs"
LEVEL = "fault_enumeration"
TECHNIQUE = "deterministic simulation: crash at every interposed filesystem call (+ torn writes, + after an injected errno failure, + after a short kernel write) of seeded replacement cases, old-or-new oracle"
QUICK_RUNS = 4000
BATCH = 20
COMPONENTS = {"real": ["twisted.python.filepath.FilePath.setContent/temporarySibling/create/open", "twisted.persisted.sob.Persistent.save/_saveTemp/setStyle (pickle and source styles, tag / filename naming)",
                       "the real filesystem under a scratch directory (reads; hard links, symbolic links and st_nlink are the real ones)", "twisted.persisted.aot.jellyToSource (source style)"],
              "stub": ["process/kernel boundary for mutating calls (detsim.fs interposer: crash points, torn writes, user-space buffer loss, short kernel writes)",
                       "filepath.randomBytes (deterministic temp names)"]}
RULE = ("run = one tape-drawn case (API variant, for Persistent its style pickle/source and tagged or untagged name, target exists or not, kind of the target's directory entry "
        "(one-name file / second hard link in the same or another directory / symbolic link to a file elsewhere / dangling symbolic link), old/new content sizes 0..20 KiB (0..5 KiB for source style, whose stored form is up to 4x as long), "
        "user-space buffer size, basename length class "
        "short / 32..200 bytes / NAME_MAX-40..NAME_MAX, errno-fault family on or off with its errnos) for which every crash point "
        "1..N and torn-write lengths {0,1,len/2,len-1} are enumerated, each followed by restart + byte-level inspection + two crash-free saves (a shorter content, then the new content) over whatever the crash left; "
        "with the errno family on, additionally every non-write call fails once with each of the run's 3 open-class / 2 rename-class errnos and the first, the last and one drawn kernel write "
        "fail with the run's write errno - each such failed-call execution is inspected (raised: old-or-new; returned: new content), followed by the two saves, and then re-run with a crash "
        "at every call (and torn length) the operation makes after the failed one; "
        "with the short-write family on (3 runs in 10), one drawn kernel write of at least 2 bytes accepts only 1, half and all but one of its bytes, the first and the last kernel write one of "
        "these lengths, each once with the following kernel write succeeding and once with it failing with the run's errno (ENOSPC/EFBIG/EDQUOT/EIO) - a buffered file writes the rest "
        "itself, a raw one returns the short count; each such execution is inspected (returned: new content, complete; raised: old-or-new), followed by the two saves, and for one drawn "
        "accepted length re-run with a crash at every call after the short write (torn lengths 0 and len/2); "
        "non-trivial = at least 3 crash points enumerated, including a torn write (a near-limit name for which the temporary cannot be created gives a trivial run on the unchanged tree: "
        "the operation refuses before touching anything)")
ASSUMPTIONS = ["POSIX rename() is atomic and data handed to write() before a crash survives (process crash, not power loss; the property and the code make no fsync claim)",
               "a crash loses everything still in the process's user-space file buffer",
               "an injected errno failure has no effect on the filesystem (the failed call did nothing; a failed kernel write wrote nothing) and the exception reaches the calling code as OSError(errno)",
               "a short kernel write stores exactly the accepted prefix and raises nothing (POSIX write(2)); a buffered file object keeps issuing kernel writes for the rest until all is accepted "
               "or one raises (io.BufferedWriter), an unbuffered one returns the count of its single kernel write (io.FileIO); the condition that cut the write short makes at most the next kernel "
               "write fail; as for errno faults, the bytes of a buffered chunk whose kernel write raises are dropped",
               "the statement speaks of the target path only: no verdict on what the OTHER names of a hard-linked target, or the file a symbolic-link target pointed to, hold afterwards "
               "(they are set up by the harness, are not counted as left-behind files, and the target is always read the way a reader would: through the path, following links)",
               "one operation at a time per target, and the directory holds no OTHER application state under the operation's own temporary name: the statement quantifies over the crash "
               "points of one save, not over concurrent savers or over other saves' targets. Persistent's scratch name is fixed (<final>-2 / <name>[-<tag>]-2.<ext>) and opened with plain "
               "open(..., 'wb'): (i) an untagged save() uses <name>-2.<ext>, which is also the final name of save(tag='2') - that file is consumed by every untagged save, crash or no crash "
               "(it IS the save's temporary; its own target <name>.<ext> stays old-or-new); (ii) two processes saving the same name at once share one scratch file and can publish a mixture "
               "without any crash. Both were examined (round 6) and are outside the statement - a naming / mutual-exclusion matter, not crash atomicity; tags are drawn from names that are "
               "not another form's scratch name, and the harness runs one saver. FilePath.setContent is not affected (random sibling name, O_EXCL)",
               "no verdict on whether an operation SUCCEEDS for a target name within 40 bytes of NAME_MAX (it may refuse with OSError because its temporary name does not fit) - only old-or-new is demanded "
               "of a refusal; for every other name a fault-free operation must succeed. The errno is injected at the interposer, the real directory stays writable (the harness runs as root, so mode "
               "bits cannot produce EACCES for real)"]
LEVEL_TEXT = ("Exhaustive enumeration of crash points (every interposed mutating call, plus torn lengths for every kernel write) for each sampled case, and of the crash points "
              "that follow each injected errno failure or short kernel write; cases (contents, name length, which errnos, which writes fail or are cut short and at which lengths) are sampled by seed. The right level because the property "
              "quantifies over crash points, which are finite per case.")


class Obj:
    def __init__(self, payload):
        self.payload = payload

    def __eq__(self, o):
        return isinstance(o, Obj) and o.payload == self.payload


_ctr = [0]


def _fake_random(n):
    _ctr[0] += 1
    return hashlib.sha256(b"c52-%d" % _ctr[0]).digest()[:n]


def _content(sim, label, big=20000):
    kind = sim.draw_choice(["small", "empty", "medium", "large"], label)
    if kind == "empty":
        return b""
    if kind == "small":
        return sim.draw_bytes(sim.draw_int(1, 12, "len"), b"abcxyz\n\x00\xff")
    if kind == "medium":
        return sim.draw_blob(sim.draw_int(13, 300, "len"))
    return sim.draw_blob(sim.draw_int(301, big, "len"))


def _encode(style, content):
    """The bytes a complete save of `content` stores (computed apart from sob: pickle / aot directly)."""
    if style == "source":
        out = io.BytesIO()
        aot.jellyToSource(Obj(content), out)
        return out.getvalue()
    return pickle.dumps(Obj(content), 2)


# errno values a failing call of each class can plausibly report (value 0 of a draw = first item)
OPEN_ERRNOS = [errno.ENOSPC, errno.EACCES, errno.ENAMETOOLONG, errno.EMFILE, errno.EEXIST, errno.EROFS, errno.EIO]
WRITE_ERRNOS = [errno.ENOSPC, errno.EIO, errno.EDQUOT, errno.EFBIG]
RENAME_ERRNOS = [errno.EACCES, errno.EXDEV, errno.ENOSPC, errno.EBUSY, errno.EPERM, errno.EIO]
NEAR = 40    # a target name within NEAR bytes of NAME_MAX leaves too little room for *some* longer sibling name: no verdict on success


def _op_class(op):
    if op == "write":
        return "write"
    if op in ("rename", "replace", "link"):
        return "rename"
    return "open"


def run(sim):
    variant = sim.draw_choice(["setContent", "setContent-ext", "sob.save", "sob.save-filename"], "variant")
    # how the application is persisted (Persistent variants only): style and naming; value 0 = the defaults
    style = sim.draw_choice(["pickle", "source"], "style") if variant.startswith("sob") else None
    tag = sim.draw_choice([None, "tag", "v2"], "tag") if variant == "sob.save" else None
    exists = sim.draw_bool(0.7, "target_exists")
    # what kind of directory entry the target is before the operation
    if exists:
        kind = sim.draw_weighted([("file", 11), ("hardlink-same-dir", 3), ("hardlink-other-dir", 2), ("symlink", 3)], "target_kind")
    else:
        kind = sim.draw_weighted([("absent", 8), ("dangling-symlink", 2)], "target_kind")
    # (serialising to source costs ~0.5 ms per KiB and happens in every one of the case's hundreds of executions: smaller "large" contents there)
    big = 5000 if style == "source" else 20000
    old = _content(sim, "old", big) if exists else None
    new = _content(sim, "new", big)
    if old is not None and old == new:
        new = new + b"!"
    # user-space buffer size: chosen so a case has at most ~12 kernel writes (enumeration is quadratic in them)
    nchunks = sim.draw_choice([1, 2, 3, 5, 12], "nchunks")
    # (the source form of a content is up to four times as long as the content)
    stored_len = len(_encode(style, new)) if style == "source" else len(new)
    bufsize = 8192 if nchunks == 1 else max(4, -(-(stored_len + 200) // nchunks))
    # length of the target's basename in bytes: ordinary, long, or within NEAR bytes of the directory's NAME_MAX
    # (the temporary name next to the target is longer than the target's own name)
    name_class = sim.draw_weighted([("short", 14), ("long", 2), ("near-limit", 4)], "name_class")
    name_slack = sim.draw_int(0, NEAR, "name_slack") if name_class == "near-limit" else None
    name_len = sim.draw_int(32, 200, "name_len") if name_class == "long" else None
    # errno-fault family: one call of the operation fails with an errno, the operation goes on (or gives up) and every crash
    # point of what it does afterwards is enumerated as well
    faults = sim.draw_bool(0.5, "errno_faults")
    errs = None
    if faults:
        errs = {"open": sim.draw_perm(OPEN_ERRNOS)[:3], "rename": sim.draw_perm(RENAME_ERRNOS)[:2], "write": [sim.draw_choice(WRITE_ERRNOS, "write_errno")]}
    write_pick = sim.draw_int(0, 11, "write_fault_pick") if faults else 0
    # short-write family: one kernel write of the operation accepts only part of its buffer WITHOUT failing (disk or quota filling up in the
    # middle of the buffer, RLIMIT_FSIZE); the write that follows fails with the run's errno, or succeeds (space was freed)
    shorts = None
    if sim.draw_bool(0.3, "short_writes"):
        shorts = {"then": sim.draw_choice([errno.ENOSPC, errno.EFBIG, errno.EDQUOT, errno.EIO], "short_then_errno"),
                  "write_pick": sim.draw_int(0, 11, "short_write_pick"), "len_pick": sim.draw_int(0, 2, "short_len_pick")}
    sim.config = {"variant": variant, "style": style, "tag": tag, "kind": kind, "exists": exists, "old_len": None if old is None else len(old), "new_len": len(new), "bufsize": bufsize,
                  "name_class": name_class, "name_slack": name_slack, "name_len": name_len, "errno_faults": None if errs is None else {c: [errno.errorcode[e] for e in errs[c]] for c in sorted(errs)},
                  "short_writes": None if shorts is None else dict(shorts, then=errno.errorcode[shorts["then"]])}
    _ctr[0] = 0
    F = simfs.FS(sim, bufsize=bufsize)
    saved_rb = filepath.randomBytes
    filepath.randomBytes = _fake_random
    bindings = [(filepath, "os", "os"), (filepath, "open", "open"), (sob, "os", "os"), (sob, "open", "open")]
    try:
        name_max = os.pathconf(F.root, "PC_NAME_MAX")
        if name_class == "near-limit":
            name_len = name_max - name_slack
        sim.event("case", variant, style or "-", tag or "-", kind, "old", "-" if old is None else len(old), "new", len(new), "buf", bufsize,
                  "name", name_class, "-" if name_len is None else name_max - name_len, "faults", int(faults), "shorts", int(shorts is not None))
        with simfs.Installed(F, bindings):
            _enumerate(sim, F, variant, style, tag, kind, old, new, name_class, name_len, errs, write_pick, shorts)
    finally:
        filepath.randomBytes = saved_rb
        F.destroy()


def _enumerate(sim, F, variant, style, tag, kind, old, new, name_class, name_len, errs, write_pick, shorts=None):
    is_sob = variant.startswith("sob")
    d = os.path.join(F.root, "d")
    side = os.path.join(F.root, "o")       # a second directory: the other name of a hard-linked target / the file behind a symlinked one
    ext = ".tas" if style == "source" else ".tap"
    suffix = ext if variant == "sob.save" else ".dat"
    mid = "-" + tag if tag else ""
    stem = "app" if variant == "sob.save" else "target"
    if name_len is not None:
        stem = (stem + "-" + "n" * name_len)[:name_len - len(suffix) - len(mid)]
    tname = stem + mid + suffix
    target = os.path.join(d, tname)
    # names the harness itself puts next to the target (the second hard link): not "left behind" by the operation
    pre = ["snapshot.lnk"] if kind == "hardlink-same-dir" else []
    # the label used in witnesses: the variant plus every non-default family member
    label = variant + "".join("+" + x for x in (style if style == "source" else None, "tag" if tag else None,
                                                  kind if kind not in ("file", "absent") else None) if x)
    # a near-limit name may legitimately make the operation fail (the temporary's longer name does not fit): then the statement only
    # asks for old-or-new; for every other name a fault-free operation has to succeed
    may_fail = name_class == "near-limit"

    encoded = {}

    def encode(content):
        if content is None or not is_sob:
            return content
        if content not in encoded:
            encoded[content] = _encode(style, content)
        return encoded[content]

    def reset():
        F.reboot()
        for x in (d, side):
            if os.path.isdir(x):
                for n in os.listdir(x):
                    os.remove(os.path.join(x, n))
            else:
                os.mkdir(x)
        if kind == "dangling-symlink":
            os.symlink(os.path.join(side, "gone" + suffix), target)
        if old is None:
            return
        first = os.path.join(side, "real" + suffix) if kind == "symlink" else target
        with open(first, "wb") as f:
            f.write(encode(old))
        if kind == "symlink":
            os.symlink(first, target)
        elif kind == "hardlink-same-dir":
            os.link(target, os.path.join(d, pre[0]))
        elif kind == "hardlink-other-dir":
            os.link(target, os.path.join(side, "snapshot" + suffix))

    def persistent(content, name):
        p = sob.Persistent(Obj(content), name)
        if style != "pickle":
            p.setStyle(style)
        return p

    def operate(content):
        if variant == "setContent":
            filepath.FilePath(target).setContent(content)
        elif variant == "setContent-ext":
            filepath.FilePath(target).setContent(content, b".tmp" if isinstance(target, bytes) else ".tmp")
        elif variant == "sob.save":
            cwd = os.getcwd()
            os.chdir(d)
            try:
                if tag:
                    persistent(content, stem).save(tag=tag)
                else:
                    persistent(content, stem).save()
            finally:
                os.chdir(cwd)
        else:
            persistent(content, "app").save(filename=target)

    def attempt(content, **arm):
        """One call of the operation under the armed faults -> ("ok" | "failed" | "crashed", exception)."""
        F.arm(**arm)
        try:
            operate(content)
        except simfs.SimCrash:
            return "crashed", None
        except Exception as e:      # operate() runs only code under test: no oracle exception can be swallowed here
            return "failed", e
        return "ok", None

    def read_target():
        if not os.path.exists(target):
            return None
        with open(target, "rb") as f:
            raw = f.read()
        if is_sob:
            try:
                o = aot.unjellyFromSource(io.BytesIO(raw)) if style == "source" else pickle.loads(raw)
            except Exception as e:
                return ("garbage", type(e).__name__, len(raw))
            return o.payload if isinstance(o, Obj) else ("garbage", "type", len(raw))
        return raw

    def read_raw():
        if not os.path.exists(target):
            return None
        with open(target, "rb") as f:
            return f.read()

    def holds(content):
        # byte-level comparison (it implies that the decoded payload is equal): a pickle followed by stale bytes still *loads*, so a
        # comparison of the decoded object alone would accept it
        return read_raw() == encode(content)

    def is_temp(name):
        if variant == "setContent":
            return name != tname and name.endswith(tname + ".new")
        if variant == "setContent-ext":
            return name != tname and name.endswith(tname + ".tmp")
        if variant == "sob.save":
            return name == stem + mid + "-2" + ext
        return name == tname + "-2"

    def strays():
        return [x for x in sorted(os.listdir(d)) if x != tname and x not in pre and not is_temp(x)]

    def torn_lengths(op, size):
        if op == "write" and size:
            return [t for t in sorted(set([0, 1, size // 2, size - 1]) - {size}) if 0 <= t < size]
        return [0]

    def resave(wit, what):
        # the restarted (or surviving) process saves again - first a SHORTER content (so a scratch file left by the earlier attempt,
        # if reused without truncation, would show its stale tail), then the original new content: each must leave exactly what was saved
        short = new[:len(new) // 3]
        for label, content in (("shorter", short), ("same", new)):
            before = read_raw()
            outcome, exc = attempt(content)
            if outcome == "failed" and may_fail:
                sim.probe("name-too-long-refused")
                sim.check("error-old-or-new", read_raw() in (before, encode(content)), wit + "/" + label,
                          lambda: "refused save of %s content after %s: target went from %s to %s" % (label, what, _d(before), _d(read_raw())))
            else:
                if outcome != "ok":
                    sim.fail("retry-raised", "%s:%s" % (wit, type(exc).__name__), "%s: %s" % (type(exc).__name__, str(exc)[:200]))
                sim.check("retry-new-content", holds(content), wit + "/" + label,
                          lambda: "save of %s content after %s left %s (raw %s, expected raw %s)"
                          % (label, what, _d(read_target()), _d(read_raw()), _d(encode(content))))
            left = strays()
            sim.check("only-temporaries-left", not left, wit + "/" + label, lambda: "stray files after a completed save: %r" % left)

    def after_crash(wit, what):
        F.reboot()
        got = read_raw()
        sim.check("old-or-new", got == encode(new) or got == encode(old), wit,
                  lambda: "%s: target holds %s (raw %s); old=%s new=%s" % (what, _d(read_target()), _d(got), _d(old), _d(new)))
        left = strays()
        sim.check("only-temporaries-left", not left, wit, lambda: "stray files after %s: %r" % (what, left))
        resave(wit, what)

    # fault-free run: counts the crash points and must produce the new content
    reset()
    outcome, exc = attempt(new)
    base_outcome = outcome
    npoints = F.n
    plan = list(F.log)
    if outcome == "failed" and may_fail:
        sim.probe("name-too-long-refused")
        sim.check("error-old-or-new", holds(old), label, lambda: "refused operation left %s; old=%s" % (_d(read_raw()), _d(encode(old))))
    else:
        if outcome != "ok":
            sim.fail("crash-free-raised", "%s:%s" % (label, type(exc).__name__), "%s: %s" % (type(exc).__name__, str(exc)[:200]))
        sim.check("crash-free-new-content", holds(new), label, "crash-free operation did not leave the new content")
        sim.check("crash-free-no-leftovers", sorted(os.listdir(d)) == sorted([tname] + pre), label, lambda: "left: %r" % sorted(os.listdir(d)))
        sim.check("has-crash-points", npoints >= 2, label, "interposer saw %d mutating calls" % npoints)
    sim.event("points", outcome, npoints, " ".join(p[1] for p in plan))
    if name_class != "short":
        sim.probe("name:" + name_class)
    if kind not in ("file", "absent"):
        sim.probe("target-kind:" + kind)
    if style == "source":
        sim.probe("style:source")
    if tag:
        sim.probe("tagged-name")
    torn_seen = 0
    for (n, op, rel, size) in plan:
        for torn in torn_lengths(op, size):
            reset()
            crashed, _ = attempt(new, crash_at=n, torn=torn)
            sim.check("crash-fired", crashed == "crashed" and F.crashed_op == op, label, "crash point %d (%s) did not fire identically" % (n, op))
            sim.fault("crash@" + op)
            if op == "write" and torn:
                sim.fault("torn_write")
                torn_seen += 1
            after_crash("%s@%s" % (label, op), "crash at point %d/%d (%s %s, torn=%s)" % (n, npoints, op, rel, torn))
            sim.step(100000)

    # errno faults: every non-write call with the run's errnos of its class (3 open-class, 2 rename-class), the first / last / one drawn
    # kernel write with the run's write errno
    post_points = 0
    if errs:
        writes = [p for p in plan if p[1] == "write"]
        chosen = set(p[0] for p in plan if p[1] != "write")
        if writes:
            chosen.update([writes[0][0], writes[-1][0], writes[write_pick % len(writes)][0]])
        for (k, op, rel, size) in plan:
            if k not in chosen:
                continue
            for err in errs[_op_class(op)]:
                ename = errno.errorcode[err]
                reset()
                outcome, exc = attempt(new, errno_at=k, err=err)
                sim.check("fault-fired", outcome != "crashed" and F.crashed_op == op, label, "errno fault at call %d (%s) did not fire identically" % (k, op))
                sim.fault("errno@" + op)
                fplan = list(F.log)
                wit = "%s@%s" % (label, op)
                what = "%s at call %d (%s %s)" % (ename, k, op, rel)
                if outcome == "ok":
                    # the operation coped with the error and reported success: then the new content has to be there
                    sim.check("error-then-success-new-content", holds(new), wit, lambda: "operation returned normally after %s, target holds %s" % (what, _d(read_raw())))
                else:
                    sim.probe("fault-reported:" + type(exc).__name__)
                    sim.check("error-old-or-new", read_raw() in (encode(new), encode(old)), wit,
                              lambda: "operation failed (%s) after %s: target holds %s; old=%s new=%s" % (type(exc).__name__, what, _d(read_raw()), _d(encode(old)), _d(encode(new))))
                left = strays()
                sim.check("only-temporaries-left", not left, wit, lambda: "stray files after %s: %r" % (what, left))
                resave(wit, what)
                sim.event("fault", k, op, ename, outcome, " ".join(p[1] for p in fplan[k:]))
                # ... and a crash at every call the operation makes AFTER the failed one (clean-up, fall-backs, the flush on close)
                for (n, op2, rel2, size2) in fplan[k:]:
                    for torn in torn_lengths(op2, size2):
                        reset()
                        crashed, _ = attempt(new, crash_at=n, torn=torn, errno_at=k, err=err)
                        sim.check("crash-fired", crashed == "crashed" and F.crashed_op == op2, label,
                                  "crash point %d (%s) after %s did not fire identically" % (n, op2, what))
                        sim.fault("errno-then-crash@" + op2)
                        post_points += 1
                        after_crash("%s@%s-after-failed-%s" % (label, op2, op),
                                    "%s, then crash at point %d/%d (%s %s, torn=%s)" % (what, n, len(fplan), op2, rel2, torn))
                        sim.step(100000)
    # short writes: one drawn kernel write (of at least 2 bytes) accepts only 1 / half / all but one of its bytes, the first and the last one
    # one of these lengths (drawn), and return that count without raising; the kernel write that follows (a buffered file issues it for the rest, a raw one leaves it to its
    # caller) succeeds, or fails with the run's errno.  Nothing has "failed" at the moment of the short write, so the verdicts are the same
    # as for an errno fault: returned normally -> the new content, complete; raised -> old or new.
    short_points = 0
    if shorts:
        writes = [p for p in plan if p[1] == "write" and p[3] >= 2]
        chosen = set()
        drawn = None
        if writes:
            drawn = writes[shorts["write_pick"] % len(writes)][0]
            chosen.update([writes[0][0], writes[-1][0], drawn])
        for (k, op, rel, size) in plan:
            if k not in chosen:
                continue
            lens = sorted(set([1, size // 2, size - 1]) & set(range(1, size)))
            deep = lens[shorts["len_pick"] % len(lens)]
            for slen in (lens if k == drawn else [deep]):
                for then in (None, shorts["then"]):
                    reset()
                    arm = dict(short_at=k, short_len=slen, short_then=then)
                    outcome, exc = attempt(new, **arm)
                    sim.check("fault-fired", outcome != "crashed" and F.short_fired, label, "short write at call %d (%s) did not fire identically" % (k, op))
                    sim.fault("short_write")
                    if F.short_then_fired:
                        sim.fault("short_write-then-errno")
                    fplan = list(F.log)
                    wit = "%s@short-write" % label
                    what = "short write at call %d (%d of %d bytes accepted, next write %s)" % (k, slen, size, "succeeds" if then is None else errno.errorcode[then])
                    if outcome == "ok":
                        sim.probe("short-write-absorbed")
                        sim.check("error-then-success-new-content", holds(new), wit,
                                  lambda: "operation returned normally after %s, target holds %s; old=%s new=%s" % (what, _d(read_raw()), _d(encode(old)), _d(encode(new))))
                    else:
                        sim.probe("short-write-reported:" + type(exc).__name__)
                        sim.check("error-old-or-new", read_raw() in (encode(new), encode(old)), wit,
                                  lambda: "operation failed (%s) after %s: target holds %s; old=%s new=%s" % (type(exc).__name__, what, _d(read_raw()), _d(encode(old)), _d(encode(new))))
                    left = strays()
                    sim.check("only-temporaries-left", not left, wit, lambda: "stray files after %s: %r" % (what, left))
                    resave(wit, what)
                    sim.event("short", k, slen, "-" if then is None else errno.errorcode[then], outcome, " ".join(p[1] for p in fplan[k:]))
                    # ... and, for one drawn accepted length, a crash at every call made after the short write (the writes of the rest, the flush
                    # on close, the rename, clean-up): at each chosen write when the next write fails (the operation gives up: few calls), at the
                    # drawn write when it succeeds
                    if slen != deep or (then is None and k != drawn):
                        continue
                    for (n, op2, rel2, size2) in fplan[k:]:
                        for torn in torn_lengths(op2, size2)[:3:2]:        # (torn lengths 0 and len/2 here)
                            reset()
                            crashed, _ = attempt(new, crash_at=n, torn=torn, **arm)
                            sim.check("crash-fired", crashed == "crashed" and F.crashed_op == op2, label,
                                      "crash point %d (%s) after %s did not fire identically" % (n, op2, what))
                            sim.fault("short-write-then-crash@" + op2)
                            short_points += 1
                            after_crash("%s@%s-after-short-write" % (label, op2),
                                        "%s, then crash at point %d/%d (%s %s, torn=%s)" % (what, n, len(fplan), op2, rel2, torn))
                            sim.step(100000)
    sim.nontrivial = npoints >= 3 and torn_seen > 0
    sim.state((variant, style, bool(tag), kind, npoints, old is None, name_class, base_outcome, errs is not None, min(post_points, 3),
               shorts is not None, min(short_points, 3)))


def _d(x):
    if x is None:
        return "<absent>"
    if isinstance(x, tuple):
        return repr(x)
    return "<%d bytes %s>" % (len(x), hashlib.sha256(x).hexdigest()[:8])


MUTANTS = [
    "seeded C52-rename-before-close (setContent renames inside the with block, data still buffered): caught, old-or-new:setContent@write",
    "seeded C52-r2-savetemp-no-trunc (sob scratch file opened without O_TRUNC): caught, retry-new-content:sob.save@write/shorter",
    "seeded C52-r3-inplace-fallback (setContent rewrites the target in place when the sibling cannot be created, EACCES/ENAMETOOLONG): caught two ways, "
    "old-or-new:setContent@write-after-failed-os.open (errno family) and old-or-new:setContent@write (near-limit basename)",
    "sob.save: `except OSError:` around _saveTemp -> _saveTemp(finalname) and return: caught, old-or-new:sob.save@write-after-failed-open(w)",
    "setContent: `except OSError:` around os.rename -> rewrite self.open('w') in place, unlink sibling: caught, old-or-new:setContent@write-after-failed-rename",
    "sob.save: OSError of _saveTemp only logged, rename of the partial scratch file goes ahead: caught, error-then-success-new-content:sob.save@write",
    "setContent: OSError while writing the sibling swallowed when the sibling exists, rename goes ahead: caught, error-then-success-new-content:setContent@write",
    "setContent: `except OSError: os.unlink(self.path); raise` clean-up around the sibling write: caught, error-old-or-new:setContent@os.open",
    "sob.save: scratch name longer than 255 bytes -> _saveTemp(finalname) directly: caught, old-or-new:sob.save-filename@write (near-limit basename)",
    "seeded C52-r4a-hardlink-inplace-copy (setContent copies the sibling over the target in place when the target has a second hard link): caught, "
    "old-or-new:setContent+hardlink-same-dir@write / setContent-ext+hardlink-other-dir@write (target-kind family)",
    "seeded C52-r4b-source-style-backup-rename (source-style save renames the old file to <target>~ before renaming the scratch file in): caught, "
    "crash-free-no-leftovers:sob.save+source / only-temporaries-left:sob.save-filename+source@open(w)/same (style family)",
    "sob.save: same two-step replacement but the backup is removed at the end (nothing left behind): caught, old-or-new:sob.save+source+tag@rename",
    "setContent: a symlinked target is rewritten in place through the link: caught, has-crash-points / old-or-new:setContent+symlink@write",
    "sob._getFilename: tagged save uses the untagged scratch name <name>-2.<ext>: caught, only-temporaries-left:sob.save+source+tag@write",
    "seeded C52-r5a-create-unbuffered-partial-write (FilePath.create returns a raw buffering=0 file, setContent ignores the count write() returns): caught, "
    "error-then-success-new-content:setContent@short-write / setContent-ext@short-write (short-write family)",
    "sob._saveTemp: scratch file opened with buffering=0 (pickle / jellyToSource ignore the count write() returns): caught, error-then-success-new-content:sob.save-filename@short-write",
    "setContent: for a dangling-symlink target the sibling is renamed onto the link's destination instead of over the link: NOT flagged, correctly - the target path "
    "reads absent-or-new at every crash point",
]
