"""C52 — atomic file replacement keeps old or new content at every crash point.

Engine E6 (fs): FilePath.setContent and sob.Persistent.save run against a real
scratch directory with every mutating call interposed.  For each tape-drawn
case (old content or none, new content, buffer size, API variant) EVERY crash
point is enumerated — each interposed call, and for each kernel write several
torn lengths — then the directory is inspected as a restarted process would
find it.
"""
import hashlib
import os
import pickle

from twisted.persisted import sob
from twisted.python import filepath

from detsim import fs as simfs

ID = "C52"
ENGINE = "fs"
LEVEL = "fault_enumeration"
TECHNIQUE = "deterministic simulation: crash at every interposed filesystem call (+ torn writes) of seeded replacement cases, old-or-new oracle"
QUICK_RUNS = 4800
BATCH = 20
COMPONENTS = {"real": ["twisted.python.filepath.FilePath.setContent/temporarySibling/create/open", "twisted.persisted.sob.Persistent.save/_saveTemp",
                       "the real filesystem under a scratch directory (reads)"],
              "stub": ["process/kernel boundary for mutating calls (detsim.fs interposer: crash points, torn writes, user-space buffer loss)",
                       "filepath.randomBytes (deterministic temp names)"]}
RULE = ("run = one tape-drawn case (API variant, target exists or not, old/new content sizes 0..20 KiB, user-space buffer size) for which every crash point "
        "1..N and torn-write lengths {0,1,len/2,len-1} are enumerated, each followed by restart + byte-level inspection + two crash-free saves (a shorter content, then the new content) over whatever the crash left; "
        "non-trivial = at least 3 crash points enumerated, including a torn write")
ASSUMPTIONS = ["POSIX rename() is atomic and data handed to write() before a crash survives (process crash, not power loss; the property and the code make no fsync claim)",
               "a crash loses everything still in the process's user-space file buffer"]
LEVEL_TEXT = ("Exhaustive enumeration of crash points (every interposed mutating call, plus torn lengths for every kernel write) for each sampled case; "
              "cases themselves are sampled by seed. The right level because the property quantifies over crash points, which are finite per case.")


class Obj:
    def __init__(self, payload):
        self.payload = payload

    def __eq__(self, o):
        return isinstance(o, Obj) and o.payload == self.payload


_ctr = [0]


def _fake_random(n):
    _ctr[0] += 1
    return hashlib.sha256(b"c52-%d" % _ctr[0]).digest()[:n]


def _content(sim, label):
    kind = sim.draw_choice(["small", "empty", "medium", "large"], label)
    if kind == "empty":
        return b""
    if kind == "small":
        return sim.draw_bytes(sim.draw_int(1, 12, "len"), b"abcxyz\n\x00\xff")
    if kind == "medium":
        return sim.draw_blob(sim.draw_int(13, 300, "len"))
    return sim.draw_blob(sim.draw_int(301, 20000, "len"))


def run(sim):
    variant = sim.draw_choice(["setContent", "setContent-ext", "sob.save", "sob.save-filename"], "variant")
    exists = sim.draw_bool(0.7, "target_exists")
    old = _content(sim, "old") if exists else None
    new = _content(sim, "new")
    if old is not None and old == new:
        new = new + b"!"
    # user-space buffer size: chosen so a case has at most ~12 kernel writes (enumeration is quadratic in them)
    nchunks = sim.draw_choice([1, 2, 3, 5, 12], "nchunks")
    bufsize = 8192 if nchunks == 1 else max(4, -(-(len(new) + 200) // nchunks))
    sim.config = {"variant": variant, "exists": exists, "old_len": None if old is None else len(old), "new_len": len(new), "bufsize": bufsize}
    sim.event("case", variant, "old", "-" if old is None else len(old), "new", len(new), "buf", bufsize)
    _ctr[0] = 0
    F = simfs.FS(sim, bufsize=bufsize)
    saved_rb = filepath.randomBytes
    filepath.randomBytes = _fake_random
    bindings = [(filepath, "os", "os"), (filepath, "open", "open"), (sob, "os", "os"), (sob, "open", "open")]
    try:
        with simfs.Installed(F, bindings):
            _enumerate(sim, F, variant, old, new)
    finally:
        filepath.randomBytes = saved_rb
        F.destroy()


def _enumerate(sim, F, variant, old, new):
    is_sob = variant.startswith("sob")
    d = os.path.join(F.root, "d")
    if variant == "sob.save":
        tname = "app.tap"
    else:
        tname = "target.dat"
    target = os.path.join(d, tname)

    def encode(content):
        return pickle.dumps(Obj(content), 2) if is_sob else content

    def reset():
        F.reboot()
        if os.path.isdir(d):
            for n in os.listdir(d):
                os.remove(os.path.join(d, n))
        else:
            os.mkdir(d)
        if old is not None:
            with open(target, "wb") as f:
                f.write(encode(old))

    def operate(content):
        if variant == "setContent":
            filepath.FilePath(target).setContent(content)
        elif variant == "setContent-ext":
            filepath.FilePath(target).setContent(content, b".tmp" if isinstance(target, bytes) else ".tmp")
        elif variant == "sob.save":
            cwd = os.getcwd()
            os.chdir(d)
            try:
                sob.Persistent(Obj(content), "app").save()
            finally:
                os.chdir(cwd)
        else:
            sob.Persistent(Obj(content), "app").save(filename=target)

    def read_target():
        if not os.path.exists(target):
            return None
        with open(target, "rb") as f:
            raw = f.read()
        if is_sob:
            try:
                o = pickle.loads(raw)
            except Exception as e:
                return ("garbage", type(e).__name__, len(raw))
            return o.payload if isinstance(o, Obj) else ("garbage", "type", len(raw))
        return raw

    def read_raw():
        if not os.path.exists(target):
            return None
        with open(target, "rb") as f:
            return f.read()

    def raw_ok(content):
        # byte-level comparison: a pickle followed by stale bytes still *loads*, so the decoded comparison alone would accept it
        raw = read_raw()
        return raw == (None if content is None else encode(content))

    def is_temp(name):
        if variant == "setContent":
            return name != tname and name.endswith(tname + ".new")
        if variant == "setContent-ext":
            return name != tname and name.endswith(tname + ".tmp")
        if variant == "sob.save":
            return name == "app-2.tap"
        return name == tname + "-2"

    # crash-free run: counts the crash points and must produce the new content
    reset()
    F.arm()
    with sim.guard("crash-free-raised", variant):
        operate(new)
    npoints = F.n
    plan = list(F.log)
    sim.check("crash-free-new-content", read_target() == new and raw_ok(new), variant, "crash-free operation did not leave the new content")
    sim.check("crash-free-no-leftovers", sorted(os.listdir(d)) == [tname], variant, lambda: "left: %r" % sorted(os.listdir(d)))
    sim.event("points", npoints, " ".join(p[1] for p in plan))
    sim.check("has-crash-points", npoints >= 2, variant, "interposer saw %d mutating calls" % npoints)
    torn_seen = 0
    for (n, op, rel, size) in plan:
        torns = [0]
        if op == "write" and size:
            torns = sorted(set([0, 1, size // 2, size - 1]) - {size})
            torns = [t for t in torns if 0 <= t < size]
        for torn in torns:
            reset()
            F.arm(crash_at=n, torn=torn)
            crashed = False
            try:
                operate(new)
            except simfs.SimCrash:
                crashed = True
            sim.check("crash-fired", crashed and F.crashed_op == op, variant, "crash point %d (%s) did not fire identically" % (n, op))
            sim.fault("crash@" + op)
            if op == "write" and torn:
                sim.fault("torn_write")
                torn_seen += 1
            F.reboot()
            got = read_target()
            wit = "%s@%s" % (variant, op)
            ok = ((got == new) and raw_ok(new)) or ((got == old) and raw_ok(old))
            sim.check("old-or-new", ok, wit,
                      lambda: "crash at point %d/%d (%s %s, torn=%s): target holds %s; old=%s new=%s"
                      % (n, npoints, op, rel, torn, _d(got), _d(old), _d(new)))
            left = sorted(os.listdir(d))
            stray = [x for x in left if x != tname and not is_temp(x)]
            sim.check("only-temporaries-left", not stray, wit, "stray files after crash at %d (%s): %r" % (n, op, stray))
            # the restarted process saves again - first a SHORTER content (so a scratch file left by the crashed attempt, if reused
            # without truncation, would show its stale tail), then the original new content: each must leave exactly what was saved
            short = new[:len(new) // 3]
            for label, content in (("shorter", short), ("same", new)):
                F.arm()
                with sim.guard("retry-raised", wit):
                    operate(content)
                sim.check("retry-new-content", read_target() == content and raw_ok(content), wit + "/" + label,
                          lambda: "save of %s content after crash at %d (%s) left %s (raw %s, expected raw %s)"
                          % (label, n, op, _d(read_target()), _d(read_raw()), _d(encode(content))))
                stray = [x for x in sorted(os.listdir(d)) if x != tname and not is_temp(x)]
                sim.check("only-temporaries-left", not stray, wit + "/" + label, lambda: "stray files after a completed save: %r" % stray)
            sim.step(100000)
    sim.nontrivial = npoints >= 3 and torn_seen > 0
    sim.state((variant, npoints, old is None))


def _d(x):
    if x is None:
        return "<absent>"
    if isinstance(x, tuple):
        return repr(x)
    return "<%d bytes %s>" % (len(x), hashlib.sha256(x).hexdigest()[:8])
