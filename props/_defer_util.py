"""Helpers shared by the Deferred-core scenarios (C01, C03): abstraction of real
Deferred state into the vocabulary of models/deferred.py."""
from twisted.internet import defer
from twisted.python.failure import Failure


class Boom(Exception):
    pass


class Halt(BaseException):
    """Harness-defined exception that derives from BaseException but NOT from Exception (what an
    application-level "stop" class, or asyncio.CancelledError, looks like to a Deferred)."""


def absres(res, names):
    """Abstract a real result for comparison with the model."""
    if isinstance(res, Failure):
        v = res.value
        return ("F", v.args[0] if isinstance(v, (Boom, Halt)) and v.args else type(v).__name__)
    if isinstance(res, defer.Deferred):
        return ("D", getattr(res, "vname", "?"))
    if res is None or type(res) in (int, str):
        return ("V", res)
    return ("V", "<%s>" % type(res).__name__)  # never a repr: no addresses in traces


def real_view(d):
    if not d.called:
        res = None
    else:
        res = absres(getattr(d, "result", "<no-result>"), None)
    pend = []
    for item in d.callbacks:
        cb, eb = item[0][0], item[1][0]
        if cb is defer._CONTINUE:
            pend.append(("cont", getattr(item[0][1][0], "vname", "?")))
        else:
            pend.append((getattr(cb, "cid", None), getattr(eb, "cid", None)))
    return (bool(d.called), d.paused, res, pend)
