"""C21 — pipelined requests are handled one at a time; notifyFinish fires once.

Engine E3 (net), shared HTTP harness.  1-6 pipelined requests (some with
Content-Length or chunked bodies) reach a real HTTPChannel in tape-chosen
pieces.  Per request the application finishes at once, writes/finishes at later
tape-chosen steps (directly or through a registered push producer), or never
finishes; it asks for 1-3 notifyFinish() Deferreds per request before the
response finishes or the connection is lost, and for further ones from inside
notification callbacks/errbacks (nesting depth up to 3): of the request that is
unfinished at that moment, or of the very request whose Deferreds are being
fired right now (a layered application whose "response is over" handler tears
down an inner layer that registers its own notifyFinish() helper).  The application's
request class (the channel's requestFactory) is of the upload-handler kind: it holds the Request
object from the request line on, and in 35% of the requests it asks for notifyFinish() Deferreds
EARLY - in its constructor (request line received), in gotLength() (headers received) and in
handleContentChunk() (body bytes arriving) - i.e. before the request has been received completely;
such a request may still be receiving its headers or body when the connection goes away (it never
reaches process()): "the connection is lost first", every one of its Deferreds is owed a failure.
Requests are HTTP/1.1 or (a few)
HTTP/1.0 and may carry Connection tokens (close, keep-alive, any case, lists), so
that the server itself ends the connection after some responses.  The transport
has a small send buffer and the client reads at tape-chosen times (producer
pause/resume), the simulated clock advances (idle time-out on sim.clock), and the
connection is lost at a tape-chosen event boundary - between header and body
bytes, mid-response, while idle - or closed by the client at the end.  In a share
of the runs the transport reports the loss synchronously from inside
loseConnection()/abortConnection() (as in-memory transports do), i.e. the loss
point lies INSIDE the channel's own close request at the end of a non-persistent
response or of an idle time-out.  Request bodies that are chunked, or announced with
a Content-Length of 100000 bytes or more (a few runs), are kept by the server in a
real temporary file; in 30% of the runs the device under it is failing: closing
such a file reports an OSError (EIO, ENOSPC, EDQUOT, EACCES, EBADF, EINTR - drawn
per file) at the moment the response of the request that owns it finishes.  The
body has long been consumed and the response is complete, so this is no business
of anybody waiting on notifyFinish(): finish() must return and every clause below
holds unchanged.

Oracle: (1) when request k+1 is handed to the application, request k's finish()
has been called and the bytes written so far parse as exactly k complete
responses; (2) the wire is the responses in request order, each body intact;
(3) every notifyFinish Deferred fires exactly once: None at finish, a Failure at
connection loss, never both, none left by the end - including every Deferred that
was obtained while the Deferreds of its request were being fired (it belongs to a
request whose response finishes / whose connection is lost in that very pass), and
every Deferred obtained early, also those of a request that was still being received
when the connection was lost;
(4) nothing reaches the transport after connectionLost.
"""
import errno
import os

from twisted.python.failure import Failure

from detsim import net
from models import http1
from props import _http_harness as H

ID = "C21"
ENGINE = "net"
LEVEL = "exploration"
TECHNIQUE = "deterministic simulation: seeded interleaving of deliveries, application steps, client reads, clock advances and connection loss on a pipelined connection"
QUICK_RUNS = 96000
TWIN_P = 0.08   # this share of the runs drives two independent instances of the scenario one after the other (detsim.runner._run_scenario)
BATCH = 200
RUN_WALL_LIMIT_S = 90   # a run takes milliseconds; the wall-clock watchdog only has to survive machine stalls under heavy shared load
COMPONENTS = {
    "real": ["twisted.web.http.HTTPChannel (_handlingRequest/_dataBuffer/requestDone/pauseProducing/resumeProducing/timeoutConnection/connectionLost)",
             "twisted.web.http.Request.notifyFinish/finish/_cleanup/connectionLost/registerProducer", "twisted.protocols.policies.TimeoutMixin on the simulated clock"],
    "stub": ["TCP transport with a small send buffer (detsim.net.SimTransport, hwm) and injected connection loss", "the client (scripted requests, reads at tape-chosen times)",
             "the application (finishes now / later / through a push producer / never)",
             "the device under the temporary files of spooled request bodies (the name `tempfile` inside twisted.web.http is rebound for the run to a "
             "pass-through whose TemporaryFile() objects are real temporary files that may report an injected errno from close())"],
}
RULE = ("run = 1-6 pipelined requests delivered in tape-chosen pieces, interleaved with application steps, client reads, clock advances (idle time-out "
        "5 s / 60 s / none) and, in 60% of the runs, a connection loss at a tape-chosen event boundary; every run ends with the connection going away; "
        "requests are HTTP/1.1 or (last: 15%, others: 3%) HTTP/1.0 and carry a Connection header (close / keep-alive in any case, comma lists) with "
        "p=0.25 (last) / 0.06 (others); in 25% of the runs the transport reports a loss synchronously from inside loseConnection()/abortConnection(); "
        "30% of the notification callbacks/errbacks ask for another notifyFinish() from inside the callback, and 45% of the callbacks of such Deferreds do so "
        "again (nesting depth <= 3); in 35% of the requests the application's request class asks for 0-2 further Deferreds at each of: its constructor, "
        "gotLength(), the first 3 handleContentChunk() calls (request not yet completely received; loss while it is being received -> failure); nested: of the request that is unfinished at that moment, else of the same request, i.e. while that request's Deferreds are "
        "being fired because its response finished / its connection was lost (full verdict for both: fires exactly once, None / failure as the pass); "
        "chunked request bodies, and in 3% of the runs one body of 100000-100002 bytes with a Content-Length, live in a temporary file; in 30% of the runs "
        "the disk is failing: 60% of these files report an OSError (errno drawn from EIO/ENOSPC/EDQUOT/EACCES/EBADF/EINTR) from the close() that follows "
        "finish() of the request that owns them (same verdicts as without the fault; finish() must not raise); "
        "non-trivial = at least two requests reached the application, or one did and the connection was lost while its response was unfinished")
ASSUMPTIONS = ["notifyFinish() may be requested from the moment the application holds the Request object: the application supplies requestFactory, so "
               "that is from the constructor on (request line received), and the overridable hooks gotLength() / handleContentChunk() are what upload "
               "handlers use before process().  A Deferred obtained there is a notifyFinish Deferred like any other: None when the response finishes, a "
               "failure if the connection is lost first - also when it is lost while that request is still being received (verified on the unchanged "
               "tree: HTTPChannel.connectionLost tells every Request object it holds).  No verdict on how many Request objects are created",
               "notifyFinish() is requested before the response finishes or the connection is lost, or WHILE the Deferreds of that request are being fired "
               "(from inside a callback/errback of one of them, any nesting depth): such a Deferred is a notifyFinish Deferred of a request whose response "
               "finishes / whose connection is lost in that very pass, so it must fire exactly once with the outcome of the pass.  Verified on the "
               "unchanged tree for every path the workload reaches: finish() of a persistent request (next pipelined request handed over before the pass), "
               "of a non-persistent / HTTP/1.0 request (channel closes; also with the loss reported inside loseConnection(), where the finished request "
               "has already left the channel and its pass still reports None), connection loss with the response in progress and with input undelivered "
               "(a loss reported inside the close request of an idle time-out meets no request that reached the application: the time-out is "
               "suspended while a request is being handled)",
               "a notifyFinish() requested AFTER that pass is over (finish() has returned / connectionLost has returned) is outside the statement and is "
               "never made by the workload (the unchanged tree leaves it unfired)",
               "how many of the pipelined requests are served after a request that allows the server to close (HTTP/1.0, Connection: close) is not "
               "part of the statement: only requests that reached the application are judged",
               "the application does not call finish() on a request whose notifyFinish already failed (documented to raise); it may still call write()",
               "requests are well-formed (malformed input belongs to C19)",
               "the application's hooks (constructor, gotLength, handleContentChunk, process) return normally: an application that raises is not in the "
               "statement's universe (request sequences, response timing, pause/resume, loss points).  Observation, no verdict: HTTPChannel.requestDone "
               "replays the buffered next request from inside Request._cleanup() of the finished one BEFORE that one's Deferreds are fired, so a "
               "process() that raises for the pipelined next request propagates out of the previous request's finish() and the previous request's "
               "notifyFinish Deferreds never fire (it has already left channel.requests, so a later connection loss does not reach it either)",
               "an OS error from closing the temporary file of a request body is an environment fault the notifyFinish clause is quantified over where the "
               "code under test itself treats it as survivable: Request._cleanup() (response finished) closes the file under `except OSError` before it "
               "fires the Deferreds, so 'fires with None when its response finishes' must hold under it.  The same error on the connection-loss path "
               "(Request.connectionLost() closes the body file of an unfinished request) is injected in the share CLOSE_FAULT_ON_LOSS_P of the "
               "failing-disk runs: before the round-5 repair of /repo (8d4e387) that close had no guard, the OSError escaped from "
               "HTTPChannel.connectionLost and the Deferreds of that and of all later requests never fired "
               "(fixed finding C21:connectionLost-raised:lose:OSError and subclasses)"]
cleanup = H.cleanup

BEHAVIOURS = ["sync", "later", "producer", "never", "later"]
# request-side Connection header values: the close / keep-alive options in any case, alone and in comma lists
CONN_VALUES = [b"close", b"keep-alive", b"Close", b"Keep-Alive", b"CLOSE", b"KEEP-ALIVE", b"keep-alive, close", b"close, TE", b"TE, keep-alive"]
# what a failing / full / network disk reports when a spooled request body is closed (OSError and subclasses of it)
CLOSE_ERRNOS = ["EIO", "ENOSPC", "EDQUOT", "EACCES", "EBADF", "EINTR"]
# share of the failing-disk runs in which a spool file's close() may ALSO fail on the connection-loss path (Request.connectionLost closes the
# body file of an unfinished request).  That path had no `except OSError` before /repo 8d4e387 (fixed finding C21:connectionLost-raised:lose:OSError).
CLOSE_FAULT_ON_LOSS_P = 0.7
EARLY_P = 0.35   # share of the requests whose notifyFinish() Deferreds are (also) requested from the constructor / gotLength() / handleContentChunk()
EARLY_CHUNKS = 3 # ... from at most this many handleContentChunk() calls per request
NEST_MAX = 3     # a notification callback may ask for another notification, whose callback may again ... up to this depth
PAYLOADS = [b"", b"hello", b"x" * 40, b"\r\n0\r\n\r\n", b"HTTP/1.1 200 OK\r\n\r\n", b"y" * 9]


class Rec:
    """Per-request bookkeeping of the oracle."""

    def __init__(self, idx):
        self.idx = idx
        self.reached_app = False   # process() was called
        self.early_chunks = 0
        self.nearly = 0            # notifyFinish() Deferreds requested before process()
        self.finish_called = False
        self.finished = False      # finish() returned
        self.lost = False          # connection lost while unfinished
        self.notes = []            # one list of observed results per notifyFinish Deferred
        self.renotes = []          # same, for Deferreds requested from inside a notification callback/errback of this very request, i.e. while its Deferreds are being fired


class AppRequest(H.RecRequest):
    """The application's request class (what it installs as the channel's requestFactory).  Like an upload handler it overrides the hooks
    that run before process(): the constructor (a request line has arrived), gotLength() (the headers are complete) and
    handleContentChunk() (body bytes).  What it does there is the scenario's business (Server.early_hook)."""

    def __init__(self, *args, **kwargs):
        H.RecRequest.__init__(self, *args, **kwargs)
        self._app_server = self.channel.factory._h_server
        self._app_server.early_hook(self, "constructor")

    def gotLength(self, length):
        H.RecRequest.gotLength(self, length)
        self._app_server.early_hook(self, "gotLength")

    def handleContentChunk(self, data):
        H.RecRequest.handleContentChunk(self, data)
        self._app_server.early_hook(self, "handleContentChunk")


def run(sim):
    # process-global mutable state (header-name cache) must not leak between runs in a warm worker
    try:
        from twisted.web import http_headers as _hh
        _hh._nameEncoder._canonicalHeaderCache.clear()
    except AttributeError:
        pass
    nreq = sim.draw_int(1, 6, "nreq")
    timeout = sim.draw_choice([60, 60, 5, None], "timeout")
    hwm = sim.draw_choice([None, 30, 8], "hwm")
    inject_loss = sim.draw_bool(0.6, "inject-loss")
    loss_at = sim.draw_int(1, 45, "loss-at") if inject_loss else None
    sync_loss = sim.draw_bool(0.25, "sync-loss")     # the transport reports a loss from inside loseConnection()/abortConnection()
    # the device request bodies are spooled to (chunked uploads and uploads of >= 100000 bytes live in a real temporary file) reports an
    # error when such a file is closed; which files, and which errno, is drawn when the file is created
    failing_disk = sim.draw_bool(0.3, "failing-disk")
    fault_on_loss = CLOSE_FAULT_ON_LOSS_P > 0 and failing_disk and sim.draw_bool(CLOSE_FAULT_ON_LOSS_P, "close-fault-on-loss")
    big_upload = sim.draw_int(0, nreq - 1, "big-upload-index") if sim.draw_bool(0.03, "big-upload") else None
    plans = []
    stream = bytearray()
    bounds = []
    for i in range(nreq):
        last = i == nreq - 1
        beh = sim.draw_choice(BEHAVIOURS, "behaviour")
        nnote = sim.draw_int(1, 3, "nnotify")
        pieces = [sim.draw_choice(PAYLOADS, "payload") for _ in range(sim.draw_int(0, 4, "nwrites"))]
        explicit_cl = sim.draw_bool(0.3, "explicit-cl")
        late_note = sim.draw_bool(0.3, "late-notify")
        plans.append({"beh": beh, "nnote": nnote, "pieces": pieces, "cl": explicit_cl, "late_note": late_note, "early": False})
        http10 = sim.draw_bool(0.15 if last else 0.03, "http10")
        fr = sim.draw_choice(["none", "length"] if http10 else ["none", "length", "chunked"], "req-framing")
        body = sim.draw_choice([b"abc", b"", b"0123456789" * 3], "req-body")
        if i == big_upload:
            # an upload announced with a Content-Length at / just above the size from which the body is spooled to a temporary file
            fr, body = "length", b"u" * (100000 + sim.draw_int(0, 2, "big-upload-extra"))
        conn = sim.draw_choice(CONN_VALUES, "conn-value") if sim.draw_bool(0.25 if last else 0.06, "conn-header") else None
        close = conn is not None
        if http10:
            sim.probe("http10_request")
        w = (b"POST" if fr != "none" else b"GET") + b" /r%d HTTP/1.%d\r\nHost: h.test\r\n" % (i, 0 if http10 else 1)
        if sim.draw_bool(0.15, "stray-crlf"):
            # one empty line before a request-line is legal and must be ignored (RFC 9112 2.2; some clients send it after a POST body)
            w = b"\r\n" + w
            sim.probe("stray_crlf_before_request")
        if close:
            w += b"Connection: " + conn + b"\r\n"
        if fr == "length":
            w += b"Content-Length: %d\r\n\r\n" % len(body)
            bounds.append(len(stream) + len(w))
            w += body
        elif fr == "chunked":
            w += b"Transfer-Encoding: chunked\r\n\r\n"
            bounds.append(len(stream) + len(w))
            w += http1.chunk_encode([body] if body else [])
        else:
            w += b"\r\n"
        stream += w
        bounds.append(len(stream))
        # the application asks for notifications of this request before it has been received completely (upload-handler hooks)
        plans[i]["early"] = sim.draw_bool(EARLY_P, "early-notify")
    stream = bytes(stream)
    sim.config = {"nreq": nreq, "timeout": timeout, "hwm": hwm, "loss_at": loss_at, "sync_loss": sync_loss, "behaviours": [p["beh"] for p in plans],
                  "failing_disk": failing_disk, "close_fault_on_loss": bool(fault_on_loss), "big_upload": big_upload}

    all_recs = []        # one per Request object the application's request class has built (ordinal = index of the request on the connection)
    recs = []            # those that reached process()
    active = []          # [rec, request, remaining writes, producer]
    state = {"lost": False, "timed_out": False}
    methods = []

    def full_body(idx):
        return b"%d:" % idx + b"".join(plans[idx]["pieces"])

    def spool_file(real):
        # twisted.web.http asked for a temporary file to keep a request body in
        f = H.SpoolFile(real, close_error)
        f.errno_name = sim.draw_choice(CLOSE_ERRNOS, "close-errno") if failing_disk and sim.draw_bool(0.6, "close-fails") else None
        sim.probe("request_body_in_temporary_file")
        return f

    def close_error(f):
        """First close() of a spool file: the errno the device reports, if any.  The error is injected where the body file of a request is
        closed because its response FINISHED (finish() was called on the request that owns the file).  A close on the connection-loss path
        (the file of a request that is unfinished, or that never reached the application) fails only with the knob CLOSE_FAULT_ON_LOSS_P."""
        rec = f.owner
        if f.errno_name is None:
            return None
        at_finish = rec is not None and rec.finish_called
        if not at_finish and not fault_on_loss:
            return None
        sim.fault("spool_file_close_oserror_at_%s" % ("finish" if at_finish else "connection_loss"))
        sim.event("spool-close-error", -1 if rec is None else rec.idx, f.errno_name)
        if at_finish and state["lost"]:
            sim.probe("spool_file_close_oserror_after_loss_inside_close_request")
        return getattr(errno, f.errno_name)

    H.install_tempfile_seam(sim, spool_file)

    def add_note(rec, req, same_request_reentrant=False, depth=0):
        seen = []
        (rec.renotes if same_request_reentrant else rec.notes).append(seen)
        # decided when the Deferred is requested (a pure function of the tape): does its callback ask for another notification?
        # (depth = how many notification callbacks this request is nested in; bounded, so that chains end)
        again = depth < NEST_MAX and sim.draw_bool(0.3 if depth == 0 else 0.45, "notify-from-callback")
        with sim.guard("notifyFinish-raised", "call"):
            d = req.notifyFinish()

        def from_callback(kind):
            """The application asks for a notification from inside a notification callback/errback: of the request that is unfinished
            right now, else of this very request - whose Deferreds are being fired at this moment (the pass that reports the end of its
            response is running: this callback is part of it), so the new Deferred is due in the same pass with the same outcome."""
            if not state["lost"] and active and active[0][0] is not rec and not active[0][0].finish_called:
                sim.probe("notify_requested_in_callback_for_unfinished_request")
                add_note(active[0][0], active[0][1], False, depth + 1)
            else:
                sim.probe("notify_requested_in_callback_of_same_request")
                sim.probe("notify_requested_while_%s_pass_runs" % kind)
                if kind == "finish" and state["lost"]:
                    sim.probe("notify_requested_while_finish_pass_runs_after_loss_inside_close_request")
                if depth + 1 >= 2:
                    sim.probe("notify_requested_in_callback_nested_%d_deep" % (depth + 1))
                add_note(rec, req, True, depth + 1)

        def in_callback(kind):
            # the application code of this notification callback/errback
            if again:
                from_callback(kind)

        def cb(result):
            seen.append("ok" if result is None else "value")
            sim.event("notify", rec.idx, seen[-1])
            sim.check("notify-twice", len(seen) == 1, "callback", "request %d deferred fired %r" % (rec.idx, seen))
            sim.check("notify-none-without-finish", rec.finish_called and not rec.lost, "callback",
                      "request %d: fired None, finish_called=%s lost=%s" % (rec.idx, rec.finish_called, rec.lost))
            in_callback("finish")

        def eb(f):
            seen.append("err" if isinstance(f, Failure) else "err?")
            sim.event("notify", rec.idx, "err", f.type.__name__ if isinstance(f, Failure) else "?")
            sim.check("notify-twice", len(seen) == 1, "errback", "request %d deferred fired %r" % (rec.idx, seen))
            # a failure is due only if the connection was lost FIRST, i.e. before finish() was called on this request: a loss that the
            # channel itself causes (and hears about) while it completes a finished response does not interrupt that response
            sim.check("notify-failure-without-loss", state["lost"] and rec.lost and not rec.finished, "errback",
                      "request %d: failed with %r, lost=%s (before its finish(): %s) finished=%s" % (rec.idx, f, state["lost"], rec.lost, rec.finished))
            in_callback("loss")

        d.addCallbacks(cb, eb)

    def early_hook(req, where):
        """A hook of the application's request class that runs before process(): the request is still being received."""
        rec = getattr(req, "_c21_rec", None)
        if rec is None:
            rec = req._c21_rec = Rec(len(all_recs))
            all_recs.append(rec)
        plan = plans[rec.idx] if rec.idx < nreq else None
        if plan is None or not plan["early"] or state["lost"] or rec.finish_called:
            return          # (a request made after the loss / after finish() is outside the statement)
        if where == "handleContentChunk":
            rec.early_chunks += 1
            if rec.early_chunks > EARLY_CHUNKS:
                return
        n = sim.draw_weighted([(0, 3), (1, 3), (2, 1)], "early-nnotify")
        sim.event("early", rec.idx, where, n)
        for _ in range(n):
            sim.probe("notify_requested_in_%s" % where)
            if any(r.finish_called and not r.finished for r in recs):
                sim.probe("notify_requested_for_request_replayed_inside_finish_of_previous")
            rec.nearly += 1
            add_note(rec, req)

    def do_finish():
        rec, req, rest, prod = active.pop(0)
        if prod is not None:
            req.unregisterProducer()
        if plans[rec.idx]["late_note"]:
            add_note(rec, req)       # still before the response finishes
        rec.finish_called = True
        sim.event("finish", rec.idx)
        with sim.guard("finish-raised", "finish"):
            req.finish()
        rec.finished = True
        if rec.nearly:
            sim.probe("notify_requested_before_process_fired_at_finish")
        sim.check("notify-on-finish", all(n == ["ok"] for n in rec.notes), "after-finish",
                  lambda: "request %d: finish() returned, notifyFinish results %r" % (rec.idx, rec.notes))
        # the pass that fires this request's Deferreds is over: whatever was requested while it ran has fired in it
        sim.check("notify-on-finish", all(n == ["ok"] for n in rec.renotes), "requested-during-notification",
                  lambda: "request %d: finish() returned, results of notifyFinish() requested from inside its notification callbacks %r" % (rec.idx, rec.renotes))

    def app_step():
        rec, req, rest, prod = active[0]
        if rest:
            data = rest.pop(0)
            sim.event("write", rec.idx, len(data))
            with sim.guard("write-raised", "write"):
                req.write(data)
        else:
            do_finish()

    def app(srv, req, idx):
        plan = plans[idx]
        rec = getattr(req, "_c21_rec", None)
        if rec is None:
            rec = req._c21_rec = Rec(idx)
            all_recs.append(rec)
        rec.idx = idx
        rec.reached_app = True
        recs.append(rec)
        methods.append(req.method)
        sim.event("process", idx, plan["beh"])
        if isinstance(req.content, H.SpoolFile):
            req.content.owner = rec       # the body of this request lives in a temporary file
            if idx == big_upload:
                sim.probe("request_body_spooled_because_of_its_length")
            if req.content.errno_name is not None:
                sim.probe("request_with_failing_spool_file_reached_application")
        # (1) one at a time, and only after the previous response is complete on the wire
        sim.check("two-requests-in-application", not active, "process",
                  lambda: "request %d handed over while request %d is unfinished" % (idx, active[0][0].idx))
        sim.check("previous-unfinished", all(r.finish_called for r in recs[:-1]), "process", "request %d" % idx)
        rs, st, _ = http1.parse_responses(bytes(srv.t.written), methods[:idx], eof=False)
        sim.check("previous-response-incomplete", st == "ok" and len(rs) == idx, "process",
                  lambda: "request %d handed over; wire so far %r parses as %d responses (%r)" % (idx, bytes(srv.t.written), len(rs), st))
        for _ in range(plan["nnote"]):
            add_note(rec, req)
        body = full_body(idx)
        req.setHeader(b"X-Idx", b"%d" % idx)
        if plan["cl"]:
            req.setHeader(b"Content-Length", b"%d" % len(body))
        rest = [b"%d:" % idx] + list(plan["pieces"])
        prod = None
        if plan["beh"] == "producer":
            prod = H.BodyProducer(sim, req, rest, None)
            req.registerProducer(prod, True)
        active.append([rec, req, rest, prod])
        if plan["beh"] == "sync":
            while active and active[0][0] is rec:
                app_step()
        elif plan["beh"] == "never":
            if rest and sim.draw_bool(0.5, "never-writes"):
                app_step()
            active[0][2] = None       # no further steps
        elif sim.draw_bool(0.4, "first-write-now"):
            app_step()

    srv = H.Server(sim, app, timeout=timeout, hwm=hwm, sync_loss=sync_loss)
    srv.early_hook = early_hook
    srv.proto.requestFactory = AppRequest
    # (a 100000-byte upload is not delivered byte by byte)
    pieces = net.cut(sim, stream, style=None if big_upload is None else sim.draw_choice(["whole", "one", "few", "edges"], "cutstyle-big"), boundaries=bounds)
    queue = list(pieces)

    def loss_begins():
        # rec.lost must be set before the errbacks run: the requests whose finish() has not been called are the interrupted ones
        # (a request whose finish() is in progress or has returned is no longer in `active`); a request that is still being received
        # (its Request object exists, process() has not been called) is interrupted as well
        for rec in all_recs:
            if not rec.finish_called:
                rec.lost = True
                if not rec.reached_app:
                    sim.probe("lost_while_request_being_received")
                    if rec.notes:
                        sim.probe("lost_while_request_being_received_with_notification_pending")
        state["lost"] = True

    def sync_loss_begins():
        # the transport is about to report the loss from inside loseConnection()/abortConnection()
        sim.event("lose", "inside-close-request", len(active))
        if any(r.finish_called and not r.finished for r in recs):
            sim.probe("lost_inside_finish_of_nonpersistent_response")
        loss_begins()

    srv.t.on_sync_loss = sync_loss_begins

    def lose(clean):
        if state["lost"]:
            return
        loss_begins()
        sim.event("lose", "clean" if clean else "unclean", len(active))
        with sim.guard("connectionLost-raised", "lose"):
            srv.lose(clean=clean)
        after_loss()

    def after_loss():
        state["loss_checked"] = True
        # (3) every Deferred of an unfinished request that reached the application failed, exactly once, right now
        # (also of a request that was still being received: its Deferreds were obtained in the constructor / gotLength / handleContentChunk)
        for rec in all_recs:
            if not rec.finished:
                sim.check("notify-on-loss", all(n == ["err"] for n in rec.notes), "after-loss" if rec.reached_app else "request-being-received",
                          lambda: "request %d %s at connection loss, notifyFinish results %r" % (
                              rec.idx, "unfinished" if rec.reached_app else "still being received (notifyFinish() requested before process())", rec.notes))
                sim.check("notify-on-loss", all(n == ["err"] for n in rec.renotes), "requested-during-notification",
                          lambda: "request %d unfinished at connection loss, results of notifyFinish() requested from inside its notification "
                                  "errbacks %r" % (rec.idx, rec.renotes))
        # a naive application keeps writing: must be ignored silently and never reach the transport
        for rec, req, rest, prod in active:
            with sim.guard("write-after-loss-raised", "write"):
                req.write(b"late")

    steps = 0
    ticks = 0
    with sim.guard("server-raised", "drive"):
        while True:
            sim.step(5000)
            steps += 1
            if loss_at is not None and steps == loss_at and not state["lost"]:
                sim.fault("connection_lost_injected")
                if active and not active[0][0].finish_called:
                    sim.probe("lost_with_response_unfinished")
                if queue:
                    sim.probe("lost_with_input_undelivered")
                lose(clean=sim.draw_bool(0.3, "clean-loss"))
            if state["lost"]:
                break
            ev = []
            closing = srv.t.disconnecting
            if queue and srv.can_deliver() and not closing:
                ev.append(("deliver", 4))
            if active and active[0][2] is not None and (active[0][3] is None or active[0][3].ready()):
                ev.append(("app", 4))
            if srv.t.out:
                ev.append(("take", 3))
            if closing and not srv.t.out:
                ev.append(("close", 3))
            if ticks < 14 and (queue or active or srv.t.out or sim.clock.pending()):
                ev.append(("tick", 1))
            if not [e for e in ev if e[0] != "tick"] and (ticks >= 14 or not sim.clock.pending()):
                break
            what = sim.draw_weighted(ev, "ev")
            if what == "deliver":
                srv.deliver(queue.pop(0))
            elif what == "app":
                app_step()
            elif what == "take":
                srv.t.take()
            elif what == "close":
                if srv.t.aborted:
                    sim.probe("abort_completed")
                lose(clean=not srv.t.aborted)
            else:
                ticks += 1
                dt = sim.draw_choice([0.5, 0.5, 3.0, 6.0, 20.0, 61.0], "dt")
                before = srv.t.close_at
                sim.clock.advance(dt)
                sim.sim_time += dt
                if before is None and srv.t.close_at is not None:
                    state["timed_out"] = True
                    sim.probe("idle_timeout_fired")
                    if active:
                        sim.probe("timeout_while_handling")   # no verdict: the statement is silent on time-outs
    if not state["lost"]:
        # the client goes away at the end of every run
        lose(clean=True)
    elif not state.get("loss_checked"):
        after_loss()        # the loss was reported from inside a close request of the channel
    if srv.t.log.count("pause"):
        sim.probe("producer_paused_by_transport", srv.t.log.count("pause"))

    wire = bytes(srv.t.written)
    sim.event("wire", len(wire), len(recs), sum(r.finished for r in recs))

    def detail():
        return "behaviours=%r finished=%r wire=%r" % ([p["beh"] for p in plans], [r.finished for r in recs], wire)

    # (3) by the end of the run every Deferred fired exactly once, None iff the response finished first
    for rec in all_recs:
        want = ["ok"] if rec.finished else ["err"]
        sim.check("notify-count", all(n == want for n in rec.notes), "finished" if rec.finished else "lost" if rec.reached_app else "lost-while-being-received",
                  lambda: "request %d (finished=%s, reached process(): %s): notifyFinish results %r" % (rec.idx, rec.finished, rec.reached_app, rec.notes))
        # requested from inside a notification callback/errback of the same request (while its Deferreds were being fired): as above
        sim.check("notify-count", all(n == want for n in rec.renotes), "requested-during-notification",
                  lambda: "request %d (finished=%s): results of notifyFinish() requested from inside its own notification callbacks %r" % (rec.idx, rec.finished, rec.renotes))
        if rec.renotes:
            sim.probe("notify_requested_in_own_callback_fired")
    # (4) nothing after connectionLost
    sim.check("write-after-connection-lost", srv.t.writes_after_lost == 0, "transport", detail)
    # (2) responses in request order, not interleaved, bodies intact
    nfin = sum(r.finished for r in recs)
    sim.check("finish-order", [r.finished for r in recs] == [True] * nfin + [False] * (len(recs) - nfin), "order", detail)
    rs, st, pos = http1.parse_responses(wire, methods, eof=False)
    sim.check("wire-responses", len(rs) >= nfin, "fewer-than-finished", lambda: "%r %s" % (st, detail()))
    for k, r in enumerate(rs):
        complete = k < nfin
        sim.check("wire-order", r.get(b"x-idx") == [b"%d" % k] and r.code == 200, "x-idx", lambda: "response %d: %r\n%s" % (k, r.headers, detail()))
        if complete:
            # delimited by chunking or Content-Length, or (HTTP/1.0 without an application-supplied length) by the server closing after it
            framed = r.framing in ("chunked", "length") or (r.framing == "close" and k == len(rs) - 1 and srv.t.close_at is not None)
            sim.check("wire-body", r.body == full_body(k) and framed, "finished", lambda: "response %d (%s): %r\n%s" % (k, r.framing, r.body, detail()))
        else:
            sim.check("wire-body", full_body(k).startswith(r.body) or r.framing == "close" and (b"%d:" % k).startswith(r.body[:len(b"%d:" % k)]),
                      "unfinished", lambda: "response %d: %r\n%s" % (k, r.body, detail()))
    sim.check("wire-responses", len(rs) <= nfin + 1 and (st == "ok" or st == "incomplete"), "unparseable", lambda: "%r %s" % (st, detail()))
    sim.state((len(recs), nfin, state["lost"], state["timed_out"], timeout, hwm))
    sim.nontrivial = len(recs) >= 2 or (len(recs) == 1 and not recs[0].finished)


MUTANTS = [
    'CAUGHT http.py Request.connectionLost: drop the errback loop -> notify-on-loss:after-loss',
    'CAUGHT http.py HTTPChannel.connectionLost: `for request in self.requests` -> `self.requests[1:]` -> notify-on-loss:after-loss',
    'CAUGHT http.py HTTPChannel.allContentReceived: `self._handlingRequest = True` -> False (pipelined data parsed while a request is in progress) -> server-raised:drive:AttributeError',
    'CAUGHT http.py HTTPChannel.requestDone: drop `del self.requests[0]` (finished request is told about connection loss again) -> notify-on-finish:after-finish',
    'CAUGHT http.py Request.write: drop the `if self._disconnected: return` guard -> write-after-loss-raised:write:AttributeError',
    'CAUGHT http.py Request._cleanup: fire every notification twice -> finish-raised:finish:AlreadyCalledError',
    'CAUGHT http.py Request.finish: `if not self.queued: self._cleanup()` -> `if self.queued` (finish never notifies) -> notify-on-finish:after-finish',
    'CAUGHT http.py Request.connectionLost: `d.errback(reason)` -> `d.callback(None)` -> notify-none-without-finish:callback',
    'CAUGHT http.py HTTPChannel.rawDataReceived: do not buffer a pipelined POST while a request is handled -> server-raised:drive:AttributeError',
    'SURVIVED (equivalent) http.py Request._cleanup: do not reset `self.notifications = []`: the finished request is removed from channel.requests, so nothing fires the list again',
    'CAUGHT (round 4) http.py HTTPChannel.requestDone: non-persistent branch calls loseConnection() BEFORE the finished request is removed from channel.requests (a transport that reports the loss inside loseConnection() makes the finished request fail) -> notify-failure-without-loss:errback',
    'CAUGHT (round 5) http.py Request._cleanup: drop the `try/except OSError` around `self.content.close()` (a failing disk under the spooled body of a '
    'chunked / large upload: finish() raises into the application, the Deferreds never fire) -> finish-raised:finish:OSError (and :PermissionError, '
    ':InterruptedError - the witness carries the exception class of the drawn errno); also CAUGHT: narrow the guard to `except PermissionError` -> finish-raised:finish:OSError',
    'CAUGHT (round 4, second pass) http.py Request._cleanup/connectionLost: detach the notification list before firing (a notifyFinish() requested from inside a notification callback/errback of the same request, i.e. while the pass runs, never fires) -> notify-on-finish:requested-during-notification / notify-on-loss:requested-during-notification; first judged outside the statement, but the Deferred belongs to a request whose response finishes / connection is lost in that very pass; only requests made after the pass returned get no verdict (none are made)',
    'CAUGHT (round 6) http.py HTTPChannel.connectionLost: tell the requests only `if self._handlingRequest` (a request that is still being received '
    'when the connection goes away - its notifyFinish() Deferreds were requested in the constructor / gotLength() / handleContentChunk() of the '
    "application's request class - is skipped) -> notify-on-loss:request-being-received; the workload had only asked for notifications from process() on",
    'CAUGHT (round 6) http.py HTTPChannel.connectionLost: `for request in self.requests` -> `self.requests[:1]` / Request.connectionLost: errback only '
    '`if self.method != b"(no method yet)"` (requests that were never completely received) -> notify-on-loss:request-being-received',
]
