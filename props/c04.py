"""C04 — DeferredList / gatherResults / race fire once with correctly ordered results.

Engine E1 (tasks): 1..12 real input Deferreds (some pre-fired, each with a
tape-chosen canceller behaviour) are handed to one real aggregate
(DeferredList with a flag combination, gatherResults, or race).  The tape then
interleaves: fire an input (success/failure), cancel an input directly, add a
late observer callback to an input, cancel the aggregate.  A recording callback
added to every input *before* aggregation yields the firing history; the oracle
is a functional specification of the aggregate's outcome as a function of that
history, evaluated after every operation.
"""
from twisted.internet import defer
from twisted.python.failure import Failure

ID = "C04"
ENGINE = "tasks"
LEVEL = "exploration"
TECHNIQUE = "deterministic simulation: seeded firing order / outcome assignment / cancellation points vs functional spec over the firing history"
QUICK_RUNS = 150000
TWIN_P = 0.08   # this share of the runs drives two independent instances of the scenario one after the other (detsim.runner._run_scenario)
BATCH = 1000
RUN_WALL_LIMIT_S = 120   # runs take milliseconds; generous because whole-machine stalls >20 s were seen under load
COMPONENTS = {"real": ["twisted.internet.defer.DeferredList", "twisted.internet.defer.gatherResults",
                       "twisted.internet.defer.race", "twisted.internet.defer.Deferred"],
              "stub": ["order in which inputs fire / are cancelled / get late callbacks (tape)"]}
RULE = ("run = 1..12 inputs (mostly 1..5; each optionally pre-fired; canceller in {none, noop, fires success, fires failure, raises[DeferredList only]}) "
        "given to DeferredList(8 flag combinations) / gatherResults(+-consumeErrors) / race, then tape-chosen operations until every input fired: "
        "fire input ok/fail, cancel input, add late observer, cancel aggregate; non-trivial = >=2 inputs, at least one input fired after "
        "aggregation and at least one failure or cancellation occurred")
ASSUMPTIONS = ["inputs are distinct Deferreds; no operation is issued from inside a callback except what cancellers do to their own Deferred",
               "a canceller that raises is used only with DeferredList (whose cancel documents catching it)"]


class Boom(Exception):
    pass


class CountingDeferred(defer.Deferred):
    """A plain Deferred that counts calls of its public cancel()."""

    def __init__(self, canceller=None):
        defer.Deferred.__init__(self, canceller)
        self.cancel_calls = 0

    def cancel(self):
        self.cancel_calls += 1
        defer.Deferred.cancel(self)


def _first(history, want_ok):
    for pos, (_, ok, _p) in enumerate(history):
        if ok == want_ok:
            return pos
    return None


def spec(kind, n, flags, history):
    """Functional specification: aggregate outcome given the firing history
    [(index, ok, payload)] (payload = value, or the exception instance).
    Returns None (must not have fired) or a tuple describing the one result."""
    if kind == "race":
        p = _first(history, True)
        if p is not None:
            i, _, v = history[p]
            return ("win", i, v)
        if len(history) == n:
            return ("group", [e for (_, _, e) in sorted(history, key=lambda h: h[0])])
        return None
    f1c, f1e, _ce = flags
    cands = []
    if f1c:
        p = _first(history, True)
        if p is not None:
            cands.append((p, 0, "one"))
    if f1e:
        p = _first(history, False)
        if p is not None:
            cands.append((p, 0, "firsterr"))
    if len(history) == n:
        cands.append((n - 1, 1, "all"))
    if not cands:
        return None
    p, _, what = min(cands)
    if what == "one":
        return ("one", history[p][2], history[p][0])
    if what == "firsterr":
        return ("firsterr", history[p][0], history[p][2])
    byidx = sorted(history, key=lambda h: h[0])
    if kind == "gather":
        return ("values", [v for (_, _, v) in byidx])
    return ("all", [(ok, v) for (_, ok, v) in byidx])


def matches(exp, got, kind):
    """Does the real aggregate result `got` equal the specified outcome?"""
    what = exp[0]
    if what == "win":
        return got == (exp[1], exp[2]) and isinstance(got, tuple)
    if what == "group":
        if not (isinstance(got, Failure) and got.check(defer.FailureGroup)):
            return False
        fs = list(got.value.failures)
        return len(fs) == len(exp[1]) and all(isinstance(f, Failure) and f.value is e for f, e in zip(fs, exp[1]))
    if what == "one":
        return isinstance(got, tuple) and got == (exp[1], exp[2])
    if what == "firsterr":
        if not isinstance(got, Failure):
            return False
        if got.check(defer.FirstError):
            return got.value.index == exp[1] and isinstance(got.value.subFailure, Failure) and got.value.subFailure.value is exp[2]
        # gatherResults: the statement says "the first failure"; accept it unwrapped too
        return kind == "gather" and got.value is exp[2]
    if what == "values":
        return isinstance(got, list) and got == exp[1]
    if what == "all":
        if not isinstance(got, list) or len(got) != len(exp[1]):
            return False
        for (eok, ev), item in zip(exp[1], got):
            if not (isinstance(item, tuple) and len(item) == 2):
                return False
            gok, gv = item
            if bool(gok) != eok:
                return False
            if eok:
                if gv != ev:
                    return False
            elif not (isinstance(gv, Failure) and gv.value is ev):
                return False
        return True
    return False


def _show(r):
    if isinstance(r, Failure):
        return "Failure(%s%r)" % (r.type.__name__, getattr(r.value, "args", ()))
    return repr(r)


def run(sim):
    n = sim.draw_weighted([(1, 2), (2, 5), (3, 6), (4, 5), (5, 4), (6, 2), (8, 1), (12, 1)], "n")
    kind = sim.draw_choice(["dl", "gather", "race"], "kind")
    if kind == "dl":
        flags = (sim.draw_bool(0.5, "f1c"), sim.draw_bool(0.5, "f1e"), sim.draw_bool(0.5, "ce"))
    elif kind == "gather":
        flags = (False, True, sim.draw_bool(0.5, "ce"))
    else:
        flags = (False, False, False)
    cancel_w = sim.draw_choice([0, 1, 3], "cancel_weight")
    plan = []
    for i in range(n):
        plan.append((sim.draw_weighted([("none", 4), ("noop", 2), ("succ", 2), ("fail", 2), ("raise", 1 if kind == "dl" else 0)], "canceller"),
                     sim.draw_weighted([("no", 5), ("ok", 2), ("fail", 2)], "prefire")))
    chained_ok = sim.draw_bool(0.5, "deferred_shapes")
    sim.config = {"n": n, "kind": kind, "flags": list(flags), "cancel_w": cancel_w,
                  "cancellers": [p[0] for p in plan], "prefire": [p[1] for p in plan], "shapes": chained_ok}

    history = []            # (index, ok, payload) in firing order, as seen by the first callback of each input
    observed = {}           # (index, observer id) -> list of results seen
    obs_meta = []           # (index, oid)
    canceller_calls = [0] * n
    user_cancels = [0] * n
    serial = [0]
    st = {"agg_cancels": 0, "fired_after": 0, "failures": 0, "cancels": 0, "win_checked": False}

    def fresh():
        serial[0] += 1
        return serial[0]

    def make_canceller(i, ck):
        if ck == "none":
            return None

        def canceller(d):
            canceller_calls[i] += 1
            sim.event("canceller", i, ck)
            if ck == "succ":
                d.callback(("cv", i, fresh()))
            elif ck == "fail":
                d.errback(Boom("ce", i, fresh()))
            elif ck == "raise":
                raise Boom("canceller-raised", i)
        return canceller

    done = [False] * n      # input i has an outcome (its recording callback ran)
    targets = {}            # chained inputs: index -> the unfired Deferred the (already called back) input is waiting on

    def rec(res, i):
        done[i] = True
        if isinstance(res, Failure):
            history.append((i, False, res.value))
            st["failures"] += 1
            sim.event("fired", i, "fail", type(res.value).__name__)
        else:
            history.append((i, True, res))
            sim.event("fired", i, "ok")
        if agg_box:
            st["fired_after"] += 1
        return res

    agg_box = []
    inputs = []
    for i, (ck, pre) in enumerate(plan):
        if pre == "no" and chained_ok and sim.draw_bool(0.3, "called_but_pending"):
            # the input has already been called back, but its callback chain is waiting on another, unfired Deferred:
            # `called` is true, the input has no result yet and the aggregate is still waiting for it
            sim.probe("input_called_but_waiting_on_another")
            targets[i] = defer.Deferred(make_canceller(i, ck))
            d = CountingDeferred(None)
            d.addCallback(lambda _ignored, i=i: targets[i])
            d.addBoth(rec, i)
            inputs.append(d)
            d.callback("pre")
            continue
        d = CountingDeferred(make_canceller(i, ck))
        d.addBoth(rec, i)
        inputs.append(d)
        if pre == "ok":
            d.callback(("v", i, fresh()))
        elif pre == "fail":
            d.errback(Boom("e", i, fresh()))

    agg_res = []

    def on_agg(res):
        agg_res.append(res)
        sim.event("aggregate-fired", _show(res) if not isinstance(res, (list, tuple)) else type(res).__name__)
        return None

    def observer(res, i, oid):
        observed.setdefault((i, oid), []).append(res)
        return res

    def add_observer(i):
        oid = len(obs_meta)
        obs_meta.append((i, oid))
        sim.event("observe", i, oid)
        inputs[i].addBoth(observer, i, oid)

    def outcome_of(i):
        for (j, ok, p) in history:
            if j == i:
                return (ok, p)
        return None

    def check_all(snap, op):
        exp = spec(kind, n, flags, history)
        sim.check("fires-once", len(agg_res) <= 1, kind, "aggregate fired %d times" % len(agg_res))
        if exp is None:
            sim.check("no-early-fire", not agg_res, kind,
                      lambda: "aggregate fired with %s but history %r does not warrant it" % (_show(agg_res[0]), [(h[0], h[1]) for h in history]))
        else:
            sim.check("fires-when-due", len(agg_res) == 1, kind + ":" + exp[0],
                      lambda: "expected %s after history %r; aggregate has not fired" % (exp[0], [(h[0], h[1]) for h in history]))
            sim.check("result", matches(exp, agg_res[0], kind), kind + ":" + exp[0],
                      lambda: "expected %r got %s (flags %r, history %r)" % (exp, _show(agg_res[0]), flags, [(h[0], h[1]) for h in history]))
        # late observers on inputs (DeferredList / gatherResults only: race's statement is silent)
        if kind != "race":
            for (i, oid) in obs_meta:
                out = outcome_of(i)
                seen = observed.get((i, oid), [])
                if out is None:
                    sim.check("observer-early", not seen, "input", "observer %d on unfired input %d saw %r" % (oid, i, seen))
                    continue
                sim.check("observer-once", len(seen) == 1, "input", "observer %d on input %d ran %d times" % (oid, i, len(seen)))
                ok, p = out
                r = seen[0]
                if ok:
                    sim.check("observer-value", r == p and not isinstance(r, Failure), "success",
                              lambda: "input %d succeeded with %r, later callback saw %s" % (i, p, _show(r)))
                elif flags[2]:
                    sim.check("consume-errors", r is None, "consumeErrors",
                              lambda: "input %d failed, consumeErrors set, later callback saw %s" % (i, _show(r)))
                else:
                    sim.check("observer-failure", isinstance(r, Failure) and r.value is p, "failure",
                              lambda: "input %d failed with %r, later callback saw %s" % (i, p, _show(r)))
        # race: at the win, every other input is cancelled, the winner is not
        if kind == "race" and exp is not None and exp[0] == "win" and not st["win_checked"]:
            st["win_checked"] = True
            w = exp[1]
            pos = _first(history, True)
            before_win = set(h[0] for h in history[:pos])
            for j in range(n):
                if j == w:
                    continue
                sim.check("race-others-done", done[j], "loser", "input %d still unfired after race was won by %d" % (j, w))
                if j in snap["unfired"] and j not in before_win:
                    sim.check("race-cancels-others", inputs[j].cancel_calls > snap["cc"][j], "loser",
                              "input %d was unfired when %d won but received no cancel()" % (j, w))
            if st["agg_cancels"] == 0:
                sim.check("race-spares-winner", inputs[w].cancel_calls == user_cancels[w], "winner",
                          "winner %d received %d cancel() calls (%d by the caller)" % (w, inputs[w].cancel_calls, user_cancels[w]))
                sim.probe("race_won")
        sim.state((kind, flags, min(n, 6), len(history), exp[0] if exp else "-"))

    def snapshot():
        return {"unfired": set(j for j in range(n) if not done[j]), "cc": [d.cancel_calls for d in inputs],
                "canc": list(canceller_calls), "agg_fired": bool(agg_res)}

    # ---- aggregate construction is the first operation
    snap = snapshot()
    sim.event("aggregate", kind, *flags)
    with sim.guard("construct-raised", kind):
        if kind == "dl":
            agg = defer.DeferredList(inputs, fireOnOneCallback=flags[0], fireOnOneErrback=flags[1], consumeErrors=flags[2])
        elif kind == "gather":
            agg = defer.gatherResults(inputs, consumeErrors=flags[2])
        else:
            agg = defer.race(inputs)
    agg_box.append(agg)
    agg.addBoth(on_agg)
    check_all(snap, "construct")

    def op_fire(ok):
        un = [j for j in range(n) if not done[j]]
        i = sim.draw_choice(un, "which")
        sim.event("fire", i, "ok" if ok else "fail")
        t = targets.get(i, inputs[i])
        if ok:
            t.callback(("v", i, fresh()))
        else:
            t.errback(Boom("e", i, fresh()))

    def op_cancel_input():
        un = [j for j in range(n) if not done[j]]
        i = sim.draw_choice(un, "which")
        sim.event("cancel-input", i)
        user_cancels[i] += 1
        st["cancels"] += 1
        sim.fault("input_cancel")
        try:
            inputs[i].cancel()
        except Boom:
            sim.check("canceller-raise-expected", plan[i][0] == "raise", "input", "cancel() of input %d raised" % i)

    def op_cancel_agg():
        s = snapshot()
        sim.event("cancel-aggregate", "fired" if s["agg_fired"] else "unfired")
        st["agg_cancels"] += 1
        st["cancels"] += 1
        with sim.guard("aggregate-cancel-raised", kind):
            agg.cancel()
        if not s["agg_fired"]:
            sim.fault("aggregate_cancel_unfired")
            for j in sorted(s["unfired"]):
                sim.check("cancel-propagates", inputs[j].cancel_calls > s["cc"][j], kind,
                          "aggregate cancelled while unfired but input %d (unfired) received no cancel()" % j)
                if plan[j][0] in ("noop", "succ", "fail"):
                    sim.check("canceller-once", canceller_calls[j] == s["canc"][j] + 1, kind,
                              "canceller of input %d ran %d times" % (j, canceller_calls[j] - s["canc"][j]))
                if plan[j][0] != "raise":
                    sim.check("cancelled-input-fired", done[j], kind, "input %d still unfired after aggregate cancel" % j)

    steps = 0
    while any(not done[j] for j in range(n)) and steps < 60:
        steps += 1
        sim.step(400)
        snap = snapshot()
        op = sim.draw_weighted([("ok", 5), ("fail", 4), ("observe", 3), ("cancel-agg", cancel_w), ("cancel-input", 1)], "op")
        if op == "ok":
            op_fire(True)
        elif op == "fail":
            op_fire(False)
        elif op == "observe":
            add_observer(sim.draw_int(0, n - 1, "which"))
        elif op == "cancel-agg":
            op_cancel_agg()
        else:
            op_cancel_input()
        check_all(snap, op)
    # drain (step cap reached only with raising cancellers and unlucky draws)
    for j in range(n):
        if not done[j]:
            snap = snapshot()
            targets.get(j, inputs[j]).callback(("v", j, fresh()))
            check_all(snap, "drain")
    snap = snapshot()
    if cancel_w and sim.draw_bool(0.3, "late_cancel"):
        op_cancel_agg()
    for j in range(n):
        add_observer(j)
    check_all(snap, "final")
    sim.check("all-fired-aggregate-fired", len(agg_res) == 1, kind, "every input fired but aggregate fired %d times" % len(agg_res))
    for d in inputs:
        d.addErrback(lambda f: None)
    sim.nontrivial = n >= 2 and st["fired_after"] > 0 and (st["failures"] > 0 or st["cancels"] > 0)


MUTANTS = [
    "defer.py DeferredList._cbDeferred: resultList[index] -> resultList[index - 1] (index bookkeeping off by one): CAUGHT",
    "defer.py DeferredList._cbDeferred: finishedCount == len(resultList) -> finishedCount >= len(resultList) - 1 (wrong length): CAUGHT",
    "defer.py race.succeeded: cancel every input including the winner (drop 'if d is not winner'): CAUGHT (race-spares-winner)",
    "defer.py DeferredList._cbDeferred: consumeErrors ignored when fireOnOneErrback is set: CAUGHT (consume-errors)",
    "defer.py DeferredList._cbDeferred: fireOnOneCallback result (result, index) -> (index, result): CAUGHT",
    "defer.py race.failed: failure_state.sort() removed (failures in firing order instead of input order): CAUGHT",
    "defer.py DeferredList.cancel: skips the first input (_deferredList[1:]): CAUGHT (cancel-propagates)",
    "defer.py race.succeeded: 'if winner is None' -> 'if True' (second success fires the result again): CAUGHT",
]
