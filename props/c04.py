"""C04 — DeferredList / gatherResults / race fire once with correctly ordered results.

Engine E1 (tasks): 1..12 real input Deferreds (some pre-fired, each with a
tape-chosen canceller behaviour) are handed to one real aggregate
(DeferredList with a flag combination, gatherResults, or race).  The tape then
interleaves: fire an input (success/failure), cancel an input directly, add a
late observer callback to an input, cancel the aggregate, and - when the inputs
were handed over as the caller's own list object - an edit of that list by the
caller (clear / pop / append / insert / reverse / item- and slice-assignment).
The inputs are handed over as a list, a tuple, a non-list Sequence or (where the
interface takes any iterable) a one-shot iterator.  A recording callback
added to every input *before* aggregation yields the firing history; the oracle
is a functional specification of the aggregate's outcome as a function of that
history, evaluated after every operation.
"""
import asyncio
from collections.abc import Sequence

from twisted.internet import defer
from twisted.python.failure import Failure

ID = "C04"
ENGINE = "tasks"
LEVEL = "exploration"
TECHNIQUE = "deterministic simulation: seeded firing order / outcome assignment / cancellation points vs functional spec over the firing history"
QUICK_RUNS = 150000
TWIN_P = 0.08   # this share of the runs drives two independent instances of the scenario one after the other (detsim.runner._run_scenario)
BATCH = 1000
RUN_WALL_LIMIT_S = 120   # runs take milliseconds; generous because whole-machine stalls >20 s were seen under load
COMPONENTS = {"real": ["twisted.internet.defer.DeferredList", "twisted.internet.defer.gatherResults",
                       "twisted.internet.defer.race", "twisted.internet.defer.Deferred"],
              "stub": ["order in which inputs fire / are cancelled / get late callbacks (tape)"]}
RULE = ("run = 1..12 inputs (mostly 1..5; each optionally pre-fired; canceller in {none, noop, fires success, fires failure, raises[DeferredList and "
        "gatherResults; race only in the RACE_RAISING_CANCELLER_P share]}; what a raising canceller raises is one class per run out of "
        "Exception subclass / application BaseException subclass / GeneratorExit / asyncio.CancelledError / KeyboardInterrupt / SystemExit) "
        "given to DeferredList(8 flag combinations) / gatherResults(+-consumeErrors) / race - handed over as the caller's list (left alone, or edited "
        "by the caller after the call returned: clear/pop/append/insert/reverse/setitem/slice-assign/del-slice, right away and/or between later operations), "
        "a tuple, a non-list Sequence, or a one-shot iterator [DeferredList/gatherResults] - then tape-chosen operations until every input fired: "
        "fire input ok/fail, cancel input, add late observer, cancel aggregate, edit the caller's list; non-trivial = >=2 inputs, at least one input fired after "
        "aggregation and at least one failure or cancellation occurred")
ASSUMPTIONS = ["inputs are distinct Deferreds; no operation is issued from inside a callback except what cancellers do to their own Deferred",
               "a canceller that raises is used with DeferredList and gatherResults (which returns a DeferredList): DeferredList.cancel documents "
               "cancelling every Deferred in the list and contains whatever a user supplied canceller raises, Exception or not, so cancel() returns "
               "normally and every other unfired input still receives its cancel(); the input whose canceller raised stays unfired",
               "race with raising cancellers: RACE_RAISING_CANCELLER_P (module constant, 0.5 of the race runs; precondition of a genuine defect of the tree as "
               "first examined, REPAIRED in /repo 1895efb; 0.0 = never, only for dev-time comparison)",
               "the aggregate is defined over the Deferreds that were in the sequence when the call was made: what the caller does to its own "
               "list object afterwards changes nothing, and a Deferred that was never handed over (put into that list later) is never cancelled "
               "by the aggregate (DeferredList: upstream test_cancelDeferredListWithOriginalDeferreds; race: its own 'copy the sequence' comment)",
               "race is declared over a Sequence, so it is given list / tuple / a collections.abc.Sequence; one-shot iterators only go to "
               "DeferredList and gatherResults (declared over Iterable)"]


class Boom(Exception):
    pass


class Abort(BaseException):
    """An application-defined exception that is deliberately not an Exception."""


# What a raising canceller raises (one class per run; first = simplest).  DeferredList.cancel documents that it contains whatever a
# user supplied canceller raises, so the universe is every kind of exception Python code can raise, not just Exception subclasses.
RAISE_UNIVERSE = [("Boom", Boom, 5), ("Abort", Abort, 2), ("GeneratorExit", GeneratorExit, 1), ("CancelledError", asyncio.CancelledError, 1),
                  ("KeyboardInterrupt", KeyboardInterrupt, 1), ("SystemExit", SystemExit, 1)]
RAISE_CLASSES = tuple(c for (_n, c, _w) in RAISE_UNIVERSE)

# Share of the race runs in which inputs may have a canceller that raises.  Before the round-6 repair of /repo (1895efb) race, unlike
# DeferredList.cancel, had no containment around the d.cancel() calls it makes, so a raising canceller of one loser kept the result from
# firing and the later losers from being cancelled (fixed finding C04:fires-when-due:race:win, see MUTANTS).
RACE_RAISING_CANCELLER_P = 0.5


class CountingDeferred(defer.Deferred):
    """A plain Deferred that counts calls of its public cancel()."""

    def __init__(self, canceller=None):
        defer.Deferred.__init__(self, canceller)
        self.cancel_calls = 0

    def cancel(self):
        self.cancel_calls += 1
        defer.Deferred.cancel(self)


class PlainSequence(Sequence):
    """A read-only Sequence that is neither a list nor a tuple."""

    def __init__(self, items):
        self._items = tuple(items)

    def __getitem__(self, i):
        return self._items[i]

    def __len__(self):
        return len(self._items)


EDITS = ["clear", "append", "pop", "reverse", "slice-assign", "pop-first", "insert-first", "setitem", "del-slice"]


def _first(history, want_ok):
    for pos, (_, ok, _p) in enumerate(history):
        if ok == want_ok:
            return pos
    return None


def spec(kind, n, flags, history):
    """Functional specification: aggregate outcome given the firing history
    [(index, ok, payload)] (payload = value, or the exception instance).
    Returns None (must not have fired) or a tuple describing the one result."""
    if kind == "race":
        p = _first(history, True)
        if p is not None:
            i, _, v = history[p]
            return ("win", i, v)
        if len(history) == n:
            return ("group", [e for (_, _, e) in sorted(history, key=lambda h: h[0])])
        return None
    f1c, f1e, _ce = flags
    cands = []
    if f1c:
        p = _first(history, True)
        if p is not None:
            cands.append((p, 0, "one"))
    if f1e:
        p = _first(history, False)
        if p is not None:
            cands.append((p, 0, "firsterr"))
    if len(history) == n:
        cands.append((n - 1, 1, "all"))
    if not cands:
        return None
    p, _, what = min(cands)
    if what == "one":
        return ("one", history[p][2], history[p][0])
    if what == "firsterr":
        return ("firsterr", history[p][0], history[p][2])
    byidx = sorted(history, key=lambda h: h[0])
    if kind == "gather":
        return ("values", [v for (_, _, v) in byidx])
    return ("all", [(ok, v) for (_, ok, v) in byidx])


def matches(exp, got, kind):
    """Does the real aggregate result `got` equal the specified outcome?"""
    what = exp[0]
    if what == "win":
        return got == (exp[1], exp[2]) and isinstance(got, tuple)
    if what == "group":
        if not (isinstance(got, Failure) and got.check(defer.FailureGroup)):
            return False
        fs = list(got.value.failures)
        return len(fs) == len(exp[1]) and all(isinstance(f, Failure) and f.value is e for f, e in zip(fs, exp[1]))
    if what == "one":
        return isinstance(got, tuple) and got == (exp[1], exp[2])
    if what == "firsterr":
        if not isinstance(got, Failure):
            return False
        if got.check(defer.FirstError):
            return got.value.index == exp[1] and isinstance(got.value.subFailure, Failure) and got.value.subFailure.value is exp[2]
        # gatherResults: the statement says "the first failure"; accept it unwrapped too
        return kind == "gather" and got.value is exp[2]
    if what == "values":
        return isinstance(got, list) and got == exp[1]
    if what == "all":
        if not isinstance(got, list) or len(got) != len(exp[1]):
            return False
        for (eok, ev), item in zip(exp[1], got):
            if not (isinstance(item, tuple) and len(item) == 2):
                return False
            gok, gv = item
            if bool(gok) != eok:
                return False
            if eok:
                if gv != ev:
                    return False
            elif not (isinstance(gv, Failure) and gv.value is ev):
                return False
        return True
    return False


def _show(r):
    if isinstance(r, Failure):
        return "Failure(%s%r)" % (r.type.__name__, getattr(r.value, "args", ()))
    return repr(r)


def run(sim):
    n = sim.draw_weighted([(1, 2), (2, 5), (3, 6), (4, 5), (5, 4), (6, 2), (8, 1), (12, 1)], "n")
    kind = sim.draw_choice(["dl", "gather", "race"], "kind")
    if kind == "dl":
        flags = (sim.draw_bool(0.5, "f1c"), sim.draw_bool(0.5, "f1e"), sim.draw_bool(0.5, "ce"))
    elif kind == "gather":
        flags = (False, True, sim.draw_bool(0.5, "ce"))
    else:
        flags = (False, False, False)
    cancel_w = sim.draw_choice([0, 1, 3], "cancel_weight")
    # gatherResults returns a DeferredList, so its cancel() is DeferredList.cancel; race: see RACE_RAISING_CANCELLER_P
    raise_w = 1 if kind != "race" else 0
    if kind == "race" and RACE_RAISING_CANCELLER_P > 0 and sim.draw_bool(RACE_RAISING_CANCELLER_P, "race_raising_cancellers"):
        raise_w = 1
    plan = []
    for i in range(n):
        plan.append((sim.draw_weighted([("none", 4), ("noop", 2), ("succ", 2), ("fail", 2), ("raise", raise_w)], "canceller"),
                     sim.draw_weighted([("no", 5), ("ok", 2), ("fail", 2)], "prefire")))
    raise_name, raise_cls = "Boom", Boom
    if any(p[0] == "raise" for p in plan):
        raise_name, raise_cls = sim.draw_weighted([((nm, c), w) for (nm, c, w) in RAISE_UNIVERSE], "canceller_raises")
    chained_ok = sim.draw_bool(0.5, "deferred_shapes")
    # how the inputs are handed over; "list-edited" = the caller's own list, which the caller goes on using afterwards
    passed_as = sim.draw_weighted([("list", 4), ("list-edited", 5), ("tuple", 2), ("sequence", 1),
                                   ("iterator", 0 if kind == "race" else 1)], "passed_as")
    edit_now_p, edit_w = 0.0, 0
    if passed_as == "list-edited":
        edit_now_p, edit_w = sim.draw_choice([(0.7, 2), (1.0, 0), (0.0, 3)], "edit_timing")
    sim.config = {"n": n, "kind": kind, "flags": list(flags), "cancel_w": cancel_w,
                  "cancellers": [p[0] for p in plan], "prefire": [p[1] for p in plan], "shapes": chained_ok,
                  "canceller_raises": raise_name,
                  "passed_as": passed_as, "edit_now_p": edit_now_p, "edit_w": edit_w}

    history = []            # (index, ok, payload) in firing order, as seen by the first callback of each input
    observed = {}           # (index, observer id) -> list of results seen
    obs_meta = []           # (index, oid)
    canceller_calls = [0] * n
    user_cancels = [0] * n
    serial = [0]
    st = {"agg_cancels": 0, "fired_after": 0, "failures": 0, "cancels": 0, "win_checked": False, "edits": 0,
          # a race result was cancelled while an input with a raising canceller was unfired: that input stays unfired, so the plain Deferred
          # returned by race ends with CancelledError (Deferred.cancel) - the statement says nothing about the result from then on
          "race_cancelled_short": False}
    outsiders = []          # Deferreds the caller put into its own list AFTER the aggregate was made: never part of it

    def fresh():
        serial[0] += 1
        return serial[0]

    def make_canceller(i, ck):
        if ck == "none":
            return None

        def canceller(d):
            canceller_calls[i] += 1
            sim.event("canceller", i, ck)
            if ck == "succ":
                d.callback(("cv", i, fresh()))
            elif ck == "fail":
                d.errback(Boom("ce", i, fresh()))
            elif ck == "raise":
                sim.fault("canceller_raised")
                if not issubclass(raise_cls, Exception):
                    sim.probe("canceller_raised_non_Exception")
                raise raise_cls("canceller-raised", i)
        return canceller

    done = [False] * n      # input i has an outcome (its recording callback ran)
    targets = {}            # chained inputs: index -> the unfired Deferred the (already called back) input is waiting on

    def rec(res, i):
        done[i] = True
        if isinstance(res, Failure):
            history.append((i, False, res.value))
            st["failures"] += 1
            sim.event("fired", i, "fail", type(res.value).__name__)
        else:
            history.append((i, True, res))
            sim.event("fired", i, "ok")
        if agg_box:
            st["fired_after"] += 1
        return res

    agg_box = []
    inputs = []
    for i, (ck, pre) in enumerate(plan):
        if pre == "no" and chained_ok and sim.draw_bool(0.3, "called_but_pending"):
            # the input has already been called back, but its callback chain is waiting on another, unfired Deferred:
            # `called` is true, the input has no result yet and the aggregate is still waiting for it
            sim.probe("input_called_but_waiting_on_another")
            targets[i] = defer.Deferred(make_canceller(i, ck))
            d = CountingDeferred(None)
            d.addCallback(lambda _ignored, i=i: targets[i])
            d.addBoth(rec, i)
            inputs.append(d)
            d.callback("pre")
            continue
        d = CountingDeferred(make_canceller(i, ck))
        d.addBoth(rec, i)
        inputs.append(d)
        if pre == "ok":
            d.callback(("v", i, fresh()))
        elif pre == "fail":
            d.errback(Boom("e", i, fresh()))

    agg_res = []

    def on_agg(res):
        agg_res.append(res)
        sim.event("aggregate-fired", _show(res) if not isinstance(res, (list, tuple)) else type(res).__name__)
        return None

    def observer(res, i, oid):
        observed.setdefault((i, oid), []).append(res)
        return res

    def add_observer(i):
        oid = len(obs_meta)
        obs_meta.append((i, oid))
        sim.event("observe", i, oid)
        inputs[i].addBoth(observer, i, oid)

    def outcome_of(i):
        for (j, ok, p) in history:
            if j == i:
                return (ok, p)
        return None

    def check_all(snap, op):
        exp = spec(kind, n, flags, history)
        sim.check("fires-once", len(agg_res) <= 1, kind, "aggregate fired %d times" % len(agg_res))
        if st["race_cancelled_short"]:
            pass
        elif exp is None:
            sim.check("no-early-fire", not agg_res, kind,
                      lambda: "aggregate fired with %s but history %r does not warrant it" % (_show(agg_res[0]), [(h[0], h[1]) for h in history]))
        else:
            sim.check("fires-when-due", len(agg_res) == 1, kind + ":" + exp[0],
                      lambda: "expected %s after history %r; aggregate has not fired" % (exp[0], [(h[0], h[1]) for h in history]))
            sim.check("result", matches(exp, agg_res[0], kind), kind + ":" + exp[0],
                      lambda: "expected %r got %s (flags %r, history %r)" % (exp, _show(agg_res[0]), flags, [(h[0], h[1]) for h in history]))
        # late observers on inputs (DeferredList / gatherResults only: race's statement is silent)
        if kind != "race":
            for (i, oid) in obs_meta:
                out = outcome_of(i)
                seen = observed.get((i, oid), [])
                if out is None:
                    sim.check("observer-early", not seen, "input", "observer %d on unfired input %d saw %r" % (oid, i, seen))
                    continue
                sim.check("observer-once", len(seen) == 1, "input", "observer %d on input %d ran %d times" % (oid, i, len(seen)))
                ok, p = out
                r = seen[0]
                if ok:
                    sim.check("observer-value", r == p and not isinstance(r, Failure), "success",
                              lambda: "input %d succeeded with %r, later callback saw %s" % (i, p, _show(r)))
                elif flags[2]:
                    sim.check("consume-errors", r is None, "consumeErrors",
                              lambda: "input %d failed, consumeErrors set, later callback saw %s" % (i, _show(r)))
                else:
                    sim.check("observer-failure", isinstance(r, Failure) and r.value is p, "failure",
                              lambda: "input %d failed with %r, later callback saw %s" % (i, p, _show(r)))
        # race: at the win, every other input is cancelled, the winner is not
        if kind == "race" and exp is not None and exp[0] == "win" and not st["win_checked"] and not st["race_cancelled_short"]:
            st["win_checked"] = True
            w = exp[1]
            pos = _first(history, True)
            before_win = set(h[0] for h in history[:pos])
            for j in range(n):
                if j == w:
                    continue
                if plan[j][0] != "raise":       # an input whose canceller raised stays unfired
                    sim.check("race-others-done", done[j], "loser", "input %d still unfired after race was won by %d" % (j, w))
                if j in snap["unfired"] and j not in before_win:
                    sim.check("race-cancels-others", inputs[j].cancel_calls > snap["cc"][j], "loser",
                              "input %d was unfired when %d won but received no cancel()" % (j, w))
            if st["agg_cancels"] == 0:
                sim.check("race-spares-winner", inputs[w].cancel_calls == user_cancels[w], "winner",
                          "winner %d received %d cancel() calls (%d by the caller)" % (w, inputs[w].cancel_calls, user_cancels[w]))
                sim.probe("race_won")
        # a Deferred that was never handed to the aggregate (the caller put it into its list afterwards) is left alone
        for k, x in enumerate(outsiders):
            sim.check("outsider-cancelled", x.cancel_calls == 0, kind,
                      "Deferred %d, put into the caller's list after the call, received %d cancel() calls" % (k, x.cancel_calls))
        sim.state((kind, flags, min(n, 6), len(history), exp[0] if exp else "-", passed_as if not st["edits"] else "edited"))

    def snapshot():
        return {"unfired": set(j for j in range(n) if not done[j]), "cc": [d.cancel_calls for d in inputs],
                "canc": list(canceller_calls), "agg_fired": bool(agg_res)}

    # ---- aggregate construction is the first operation
    snap = snapshot()
    sim.event("aggregate", kind, *flags)
    callers_list = None     # `inputs` stays the harness's own record; the aggregate never sees that object
    if passed_as in ("list", "list-edited"):
        given = callers_list = list(inputs)
    elif passed_as == "tuple":
        given = tuple(inputs)
    elif passed_as == "sequence":
        given = PlainSequence(inputs)
    else:
        given = iter(tuple(inputs))
    if passed_as not in ("list", "list-edited"):
        sim.probe("passed_as_" + passed_as)
    with sim.guard("construct-raised", kind + ":" + passed_as.split("-")[0]):
        if kind == "dl":
            agg = defer.DeferredList(given, fireOnOneCallback=flags[0], fireOnOneErrback=flags[1], consumeErrors=flags[2])
        elif kind == "gather":
            agg = defer.gatherResults(given, consumeErrors=flags[2])
        else:
            agg = defer.race(given)
    agg_box.append(agg)
    agg.addBoth(on_agg)
    check_all(snap, "construct")

    def outsider():
        x = CountingDeferred(None)
        outsiders.append(x)
        return x

    def op_edit_list():
        """The caller goes on using ITS list object (next batch, one more operation, reordering ...)."""
        how = sim.draw_choice(EDITS, "edit")
        lst = callers_list
        sim.event("edit-list", how, len(lst))
        if how == "clear":
            lst.clear()
        elif how == "append":
            lst.append(outsider())
        elif how == "pop":
            if lst:
                lst.pop()
        elif how == "reverse":
            lst.reverse()
        elif how == "slice-assign":
            lst[:] = [outsider() for _ in range(sim.draw_int(0, 3, "new_len"))]
        elif how == "pop-first":
            if lst:
                lst.pop(0)
        elif how == "insert-first":
            lst.insert(0, outsider())
        elif how == "setitem":
            if lst:
                lst[sim.draw_int(0, len(lst) - 1, "at")] = outsider()
        else:
            del lst[sim.draw_int(0, len(lst), "from"):]
        st["edits"] += 1
        sim.fault("caller_edits_own_list")
        if not agg_res:
            sim.probe("list_edited_while_aggregate_undecided")

    if edit_now_p and sim.draw_bool(edit_now_p, "edit_now"):
        snap = snapshot()
        op_edit_list()
        check_all(snap, "edit-list")

    def op_fire(ok):
        un = [j for j in range(n) if not done[j]]
        i = sim.draw_choice(un, "which")
        sim.event("fire", i, "ok" if ok else "fail")
        t = targets.get(i, inputs[i])
        if ok:
            t.callback(("v", i, fresh()))
        else:
            t.errback(Boom("e", i, fresh()))

    def op_cancel_input():
        un = [j for j in range(n) if not done[j]]
        i = sim.draw_choice(un, "which")
        sim.event("cancel-input", i)
        user_cancels[i] += 1
        st["cancels"] += 1
        sim.fault("input_cancel")
        try:
            inputs[i].cancel()
        except RAISE_CLASSES as e:
            sim.check("canceller-raise-expected", plan[i][0] == "raise" and type(e) is raise_cls, "input",
                      "cancel() of input %d raised %s" % (i, type(e).__name__))

    def op_cancel_agg():
        s = snapshot()
        sim.event("cancel-aggregate", "fired" if s["agg_fired"] else "unfired")
        st["agg_cancels"] += 1
        st["cancels"] += 1
        try:
            with sim.guard("aggregate-cancel-raised", kind):
                agg.cancel()
        except RAISE_CLASSES as e:
            if isinstance(e, Exception):
                raise               # the guard has classified it
            # sim.guard leaves non-Exception BaseExceptions alone (they may be the runner's own); these are the canceller's
            sim.fail("aggregate-cancel-raised", kind + ":" + type(e).__name__,
                     "%s raised by the canceller of an input escaped from the aggregate's cancel()" % type(e).__name__)
        if not s["agg_fired"]:
            sim.fault("aggregate_cancel_unfired")
            if any(plan[j][0] == "raise" for j in s["unfired"]):
                sim.probe("aggregate_cancel_met_raising_canceller")
                if kind == "race":
                    st["race_cancelled_short"] = True
            for j in sorted(s["unfired"]):
                sim.check("cancel-propagates", inputs[j].cancel_calls > s["cc"][j], kind,
                          "aggregate cancelled while unfired but input %d (unfired) received no cancel()" % j)
                if plan[j][0] in ("noop", "succ", "fail"):
                    sim.check("canceller-once", canceller_calls[j] == s["canc"][j] + 1, kind,
                              "canceller of input %d ran %d times" % (j, canceller_calls[j] - s["canc"][j]))
                if plan[j][0] != "raise":
                    sim.check("cancelled-input-fired", done[j], kind, "input %d still unfired after aggregate cancel" % j)

    steps = 0
    while any(not done[j] for j in range(n)) and steps < 60:
        steps += 1
        sim.step(400)
        snap = snapshot()
        op = sim.draw_weighted([("ok", 5), ("fail", 4), ("observe", 3), ("cancel-agg", cancel_w), ("cancel-input", 1),
                                ("edit-list", edit_w)], "op")
        if op == "ok":
            op_fire(True)
        elif op == "fail":
            op_fire(False)
        elif op == "observe":
            add_observer(sim.draw_int(0, n - 1, "which"))
        elif op == "cancel-agg":
            op_cancel_agg()
        elif op == "edit-list":
            op_edit_list()
        else:
            op_cancel_input()
        check_all(snap, op)
    # drain (step cap reached only with raising cancellers and unlucky draws)
    for j in range(n):
        if not done[j]:
            snap = snapshot()
            targets.get(j, inputs[j]).callback(("v", j, fresh()))
            check_all(snap, "drain")
    snap = snapshot()
    if cancel_w and sim.draw_bool(0.3, "late_cancel"):
        op_cancel_agg()
    for j in range(n):
        add_observer(j)
    check_all(snap, "final")
    sim.check("all-fired-aggregate-fired", len(agg_res) == 1, kind, "every input fired but aggregate fired %d times" % len(agg_res))
    for d in inputs + outsiders:
        d.addErrback(lambda f: None)
    sim.nontrivial = n >= 2 and st["fired_after"] > 0 and (st["failures"] > 0 or st["cancels"] > 0)


MUTANTS = [
    "defer.py DeferredList._cbDeferred: resultList[index] -> resultList[index - 1] (index bookkeeping off by one): CAUGHT",
    "defer.py DeferredList._cbDeferred: finishedCount == len(resultList) -> finishedCount >= len(resultList) - 1 (wrong length): CAUGHT",
    "defer.py race.succeeded: cancel every input including the winner (drop 'if d is not winner'): CAUGHT (race-spares-winner)",
    "defer.py DeferredList._cbDeferred: consumeErrors ignored when fireOnOneErrback is set: CAUGHT (consume-errors)",
    "defer.py DeferredList._cbDeferred: fireOnOneCallback result (result, index) -> (index, result): CAUGHT",
    "defer.py race.failed: failure_state.sort() removed (failures in firing order instead of input order): CAUGHT",
    "defer.py DeferredList.cancel: skips the first input (_deferredList[1:]): CAUGHT (cancel-propagates)",
    "defer.py race.succeeded: 'if winner is None' -> 'if True' (second success fires the result again): CAUGHT",
    "defer.py race: to_cancel is the caller's list when a list is given (no copy): CAUGHT (fires-when-due:race:win, cancel-propagates:race, "
    "outsider-cancelled:race) - needs the caller to edit its own list after the call",
    "defer.py DeferredList.__init__: _deferredList is the caller's list when a list is given (no copy): CAUGHT (cancel-propagates, outsider-cancelled)",
    "defer.py DeferredList.__init__: resultList sized with len(deferredList) (argument, not the copy): CAUGHT (construct-raised:*:iterator)",
    "defer.py DeferredList.__init__: callbacks attached by iterating the argument a second time: CAUGHT (fires-when-due, one-shot iterator)",
    "defer.py DeferredList.cancel: 'except BaseException' -> 'except Exception' around deferred.cancel(): CAUGHT (aggregate-cancel-raised:dl|gather:"
    "Abort|GeneratorExit|CancelledError|KeyboardInterrupt|SystemExit) - needs cancellers raising non-Exception BaseExceptions",
    "defer.py DeferredList.cancel: try/except around deferred.cancel() removed: CAUGHT (aggregate-cancel-raised:dl:Boom, aggregate-cancel-raised:gather:Boom)",
    "GENUINE DEFECT of the tree as first examined, REPAIRED in /repo 1895efb (precondition let into the RACE_RAISING_CANCELLER_P = 0.5 share of the race "
    "runs; 0 only for dev-time comparison): race() had no containment around the d.cancel() calls it makes, "
    "unlike DeferredList.cancel.  Witnesses before the repair: (1) race([d0, Deferred(raising canceller), d2]); d0.callback('win'): the exception leaves the `succeeded` closure "
    "(defer.py race.succeeded 'd.cancel()') and becomes d0's result, final_result.callback is never reached and d2 is never cancelled "
    "(fires-when-due:race:win, race-cancels-others:loser).  (2) race([Deferred(raising canceller), e1]).cancel(): the exception leaves cancel(), e1 is not "
    "cancelled and the result stays unfired (aggregate-cancel-raised:race:<type>, cancel-propagates:race).  Repair: try/except BaseException + "
    "log.failure around both d.cancel() calls, as in DeferredList.cancel (in `cancel` the result Deferred is then errbacked with CancelledError by Deferred.cancel)",
]
