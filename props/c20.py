"""C20 — HTTP server responses are framed exactly; headers cannot be injected.

Engine E3 (net), shared HTTP harness.  1-4 pipelined requests (GET/HEAD/POST,
HTTP/1.1 or - mostly the last one - HTTP/1.0, with or without a request-side
Connection header: close / keep-alive in any case, alone or in a comma list)
reach a real HTTPChannel under tape-chosen segmentation; for each, the
application sets a status and reason, headers and cookies from hostile alphabets
(bytes and text, with CR, LF, NUL, ';', non-ASCII), then performs 0-6 writes
spread over simulated time (directly or through a registered push producer, with
a small transport buffer so that the producer is paused/resumed) and finishes.
Header operations are setHeader / addRawHeader / setRawHeaders with a list (of 0-3
values: a list of zero values means "no line for this field") / removeHeader, often
on a field that already has values (any case); some set calls and addCookie calls
carry text that cannot be encoded (lone surrogates) - first, in the middle or
last of several values/components - and must be REFUSED without any effect on
what is sent.  In a share of the responses without a declared length the application
MENTIONS Content-Length without declaring one (zero values, a refused declaration, a
declaration withdrawn again): nothing of it may be sent and the response is framed as
if the field had never been touched.  In another share the header block that
Request.write has assembled reaches the real HTTPChannel.writeHeaders in its other
documented form - an iterable (list, tuple, generator) of (name, value) two-tuples of
bytes, one tuple per value, names in any case, with extra hostile pairs of the
request class's own - as request classes written against the pre-Headers API hand it
over; an invalid name among the pairs must be refused before anything is sent.
In a share of the responses the application goes on using the request object after the head has
gone out - between two writes or before finish it changes the status (an error handler after a 204/304
head; a late 304 after a 200 head), calls setETag / setLastModified on a conditional request (which
change the status silently), sets a header or adds a cookie: the response stays the one announced in the
head (its status decides about the body, its framing holds for every write).  Some requests are
conditional (If-None-Match / If-Modified-Since) and the application answers them with setETag /
setLastModified before writing: the helper's field is part of the headers set and, when it returns CACHED,
the status is the one it set (304, or 412).  A Set-Cookie field may be set through the header API, alone
or (knob MIX_COOKIE_APIS_P) beside addCookie calls.
Mis-framing of one response desynchronises the following ones.  In
a share of the runs the transport reports the end of the connection synchronously
from inside loseConnection() (as in-memory transports do).

Oracle: the server's output is parsed by the reference parser (models/http1.py)
and, where every value is within what h11 accepts, by h11 (client role), into
exactly one response per request that reached the application, in order, with the
status set, exactly the headers set by the calls that succeeded (line breaks ->
spaces; invalid names refused at set time; a refused call leaves earlier values
in place and emits nothing), body == concatenation of the writes, no body for
HEAD/204/304, framing consistent: chunked or Content-Length, else the response is
the last one AND the server closed the connection after it.  Every request up to
and including the first one that allows the server to close (HTTP/1.0, a close
token) must be answered; whether the server answers later ones is persistence,
not framing, and gets no verdict.
"""
import re
from email.utils import formatdate

from detsim import net
from detsim.sim import Violation, StepLimit
from models import http1
from props import _http_harness as H

ID = "C20"
ENGINE = "net"
LEVEL = "exploration"
TECHNIQUE = "deterministic simulation: hostile response generation over a pipelined connection, wire parsed by a reference parser and by h11"
QUICK_RUNS = 28000
TWIN_P = 0.08   # this share of the runs drives two independent instances of the scenario one after the other (detsim.runner._run_scenario)
BATCH = 50
RUN_WALL_LIMIT_S = 90   # a run takes milliseconds; the wall-clock watchdog only has to survive machine stalls under heavy shared load
COMPONENTS = {
    "real": ["twisted.web.http.Request.setResponseCode/setHeader/addCookie/setETag/setLastModified/write/finish/registerProducer", "twisted.web.http.HTTPChannel.writeHeaders (Headers form and two-tuple form)/"
             "write/writeSequence/pauseProducing/resumeProducing", "twisted.web.http_headers.Headers/_NameEncoder/_sanitizeLinearWhitespace",
             "twisted.web.http.toChunk"],
    "stub": ["TCP transport with a small send buffer (detsim.net.SimTransport, hwm)", "the client (scripted pipelined requests, reads at tape-chosen times)",
             "h11 0.16 client role and models/http1.py as independent parsers (oracle side)"],
}
RULE = ("run = 1-4 pipelined requests (the last: HTTP/1.0 or Connection: close in half of the runs; any other: HTTP/1.0 with p=0.06; a Connection header "
        "with close / keep-alive tokens in any case or in a list with p=0.3 on the last and on HTTP/1.0 requests, 0.08 elsewhere); per response a "
        "tape-chosen status, optional hostile reason, 0-4 header operations (setHeader/addRawHeader/setRawHeaders with 1-3 values or with none/removeHeader, bytes or text names "
        "and values, 35% on a field used before, 12% of the values / 30% of the lists with un-encodable text), 0-2 cookies with hostile attributes "
        "(15% with one un-encodable component), optional explicit Content-Length (15%: followed by a refused re-declaration), else with p=0.2 a "
        "Content-Length that is mentioned but not declared (empty value list / refused add, set, list / set then emptied or removed; name in any case, "
        "bytes or text), with p=0.15 the header block handed to writeHeaders as list/tuple/generator of two-tuples (one per value, names re-cased, 0-2 "
        "extra pairs with hostile names and values, 40% on a field used before; a block with an invalid name must be refused whole and is handed over "
        "again without it), 0-6 writes (direct or via "
        "a push producer) interleaved with request deliveries, client reads and clock advances; with p=0.2 (LATE_P) 1-2 calls on the request after the head has "
        "gone out (setResponseCode across and along the 204/304 boundary, setETag/setLastModified on a conditional request, setHeader, addCookie) placed "
        "after a tape-chosen write; 12% of the requests conditional, half of those (4% of the others) answered with setETag/setLastModified before the first write; "
        "8% of the responses set a Set-Cookie field through setHeader/addRawHeader (a quarter of those that also call addCookie keep it: MIX_COOKIE_APIS_P); 15% of the runs use a transport that reports the "
        "loss from inside loseConnection(); 7 runs out of 8 never put CR/LF into a reason phrase; "
        "non-trivial = at least one response was completed and at least one hostile byte (CR, LF, NUL, ';', non-ASCII) was used in a header, cookie "
        "or reason")
ASSUMPTIONS = ["status codes are three-digit final codes (200-599); reason phrases are bytes (the documented type)",
               "an explicit Content-Length set by the application equals the number of body bytes it then writes",
               "NUL / VT / FF inside a header value or reason: no verdict from h11 (it rejects them); the reference parser accepts them verbatim",
               "the application does not set Content-Length/Transfer-Encoding/Connection/Set-Cookie through the hostile header generator "
               "(a REFUSED re-declaration of Content-Length is made, because it must change nothing; Content-Length is also MENTIONED without being "
               "declared - zero values, refused, withdrawn - because 'exactly the headers set' then means no Content-Length and the framing must follow)",
               "a field set to a list of zero values, or removed, has no line on the wire; removeHeader is not a set call: whether it raises under an invalid "
               "name is not judged, and should it raise under a valid name that field gets no verdict",
               "HTTPChannel.writeHeaders is part of the emitting path named by the property, and its docstring documents two forms of the header argument; the "
               "two-tuple form (bytes names and values, the documented type) is held to the same clauses: exactly the pairs given - one line per pair, the order "
               "of a field's values kept - line breaks replaced, an invalid name refused with nothing sent.  The order of DIFFERENT fields is not judged",
               "the status of a response is the one in force when its head goes out (the first write, or finish); a call made on the request after that "
               "(setResponseCode, setETag, setLastModified, setHeader, addCookie) cannot be in the head and gets no verdict of its own - but the bytes must still "
               "be exactly one response: no body after a 204/304 head whatever the status is changed to, every write in the body of a head that announced one",
               "setETag / setLastModified are ways of setting a header (ETag: the tag, replacing earlier values; Last-Modified: the HTTP-date of the time given) "
               "and, as documented, of setting the status: when the call returns http.CACHED the status is 304 (412 from setETag unless GET/HEAD) and the reason "
               "phrase given earlier is not judged.  Whether the condition was evaluated correctly is not judged (the return value is taken as given)",
               "a Set-Cookie field set through setHeader/addRawHeader is a header set like any other; when addCookie is used for the same response too, all "
               "values of both are expected, in any order ('set' is only used before the first addCookie, so that nothing can be said to have been replaced)",
               "text that no encoding can carry (lone surrogates) is expected to be refused; should a set call accept it, that field gets no verdict",
               "a Connection: close / keep-alive header added to the response by the server is not a header 'set' by the application and is allowed",
               "how many requests are served after one that allows the server to close is not judged (persistence, not framing)"]
cleanup = H.cleanup

GOOD_NAMES = [b"X-A", b"x-b", b"Content-Type", b"ETag", b"X-Long-Header-Name", b"Location", b"x~!#$%&'*+.^_`|", b"Www-Authenticate", b"Cache-Control"]
NAME_ALPHABET = b"Xa-1 :\r\n\x00(\xe9\t"
VALUE_BYTES = b"ab1 \t\r\n\r\n:;,=\xe9\xff\x7f\"\\"
CONTROLS = [b"\x00", b"\x0b", b"\x0c", b"\x01", b"\x1b"]
VALUE_TEXT = ["a", "Z", "1", " ", "\t", "\r", "\n", ":", ";", "=", "é", "Ā", " ", "\x85", "\U0001f600", "\x1c"]
INJECT = [b"\r\nX-Injected: 1", b"\r\n\r\nHTTP/1.1 200 OK\r\nContent-Length: 0\r\n\r\n", b"\nSet-Cookie: evil=1", b"\rX: y", b"\r\nContent-Length: 0\r\n\r\n"]
REASON_BYTES = b"OK Not-Found.\t\xe9\xff:;"
CODES = [200, 200, 404, 204, 304, 201, 500, 299, 599, 205, 302]
BODY_BITS = [b"hello", b"", b"\r\n", b"0\r\n\r\n", b"HTTP/1.1 200 OK\r\n\r\n", b"x" * 17, bytes([0, 255, 10, 13]), b"5\r\nabcde\r\n"]


def _san(b):
    """what a cookie component may look like after sanitising: CR, LF and ';' are no longer there (each became a space)."""
    return b.replace(b"\r", b" ").replace(b"\n", b" ").replace(b";", b" ")


def _b(x):
    return x if isinstance(x, bytes) else x.encode("utf-8")


def gen_text(sim, n):
    return "".join(sim.draw_choice(VALUE_TEXT, "ch") for _ in range(n))


def gen_hostile_value(sim):
    k = sim.draw_int(0, 3, "vkind")
    if k == 0:
        return sim.draw_bytes(sim.draw_int(0, 10, "vlen"), b"ab1 -_.")          # plain
    if k == 1:
        v = sim.draw_bytes(sim.draw_int(0, 10, "vlen"), VALUE_BYTES)
        if sim.draw_bool(0.3, "inj"):
            v += sim.draw_choice(INJECT, "inject")
        if sim.draw_bool(0.12, "ctl"):
            cut = sim.draw_int(0, len(v), "ctlpos")
            v = v[:cut] + sim.draw_choice(CONTROLS, "ctlbyte") + v[cut:]
        return v
    if k == 2:
        return gen_text(sim, sim.draw_int(0, 8, "vlen"))
    return sim.draw_bytes(sim.draw_int(1, 6, "vlen"), b"ab") + sim.draw_choice(INJECT, "inject") + sim.draw_bytes(sim.draw_int(0, 3, "vlen2"), b"ab")


def gen_name(sim):
    k = sim.draw_int(0, 4, "nkind")
    if k <= 1:
        n = sim.draw_choice(GOOD_NAMES, "gname")
        return n if k == 0 else n.decode("ascii")
    if k == 2:
        return sim.draw_bytes(sim.draw_int(0, 5, "nlen"), NAME_ALPHABET)
    if k == 3:
        return sim.draw_bytes(sim.draw_int(0, 5, "nlen"), NAME_ALPHABET).decode("latin-1") + sim.draw_choice(["", "Ā"], "wide")
    return sim.draw_choice(GOOD_NAMES, "gname") + sim.draw_choice([b":", b" ", b"\r\n", b"\n", b": x\r\nY"], "ntail")


# text that no byte encoding of the response can carry: a refused set call must leave no trace
UNENCODABLE = ["\udce9", "\ud800", "a\udfffb", "caf\udce9"]
# request-side Connection header values: the close / keep-alive options in any case, alone and in comma lists
CONN_VALUES = [b"keep-alive", b"close", b"Keep-Alive", b"CLOSE", b"KEEP-ALIVE", b"Close", b"keep-alive, close", b"close, TE", b"TE, keep-alive"]


# the application goes on using the request object AFTER the head of the response has gone out (between two writes, or between the
# last write and finish): it changes the status (an error handler that runs after a 304/204 head, a handler that decides late that
# nothing changed), calls the conditional-request helpers (which change the status silently), sets a header or a cookie.  The head is
# on the wire: the response is the one announced there - its status decides whether there is a body, its framing holds for every write.
LATE_P = 0.2
LATE_KINDS = ["code", "code", "code", "etag", "lastmod", "header", "cookie"]
LATE_CODES = [500, 304, 204, 200, 404, 304, 205]
ETAGS = [b'"v1"', b'"v2"', b'W/"v1"']
IF_NONE_MATCH = [b'"v1"', b"*", b'"v2"', b'"v2", "v1"']
LASTMOD_OFFSETS = [0, -500, 500, 2000]      # seconds relative to H.EPOCH
IF_MODIFIED_SINCE_OFFSETS = [0, 1000, -1000]
# a Set-Cookie field set through the header API (setHeader / addRawHeader) is a header like any other; in this share of the responses
# that do so AND call addCookie, both APIs are used for the one response (knob: the tree as first examined had a genuine defect there,
# REPAIRED in /repo 6461a49, see MUTANTS; the precondition is let into this share, 0 is only for dev-time comparison)
DIRECT_SET_COOKIE_P = 0.08
MIX_COOKIE_APIS_P = 0.25

# ways of mentioning Content-Length without declaring one
CL_VOID_KINDS = ["empty-list", "refused-add", "set-then-empty", "refused-set", "set-then-remove", "refused-list"]


def gen_unencodable(sim):
    return gen_text(sim, sim.draw_int(0, 3, "ulen")) + sim.draw_choice(UNENCODABLE, "unenc") + gen_text(sim, sim.draw_int(0, 2, "ulen2"))


def encodable(v):
    if isinstance(v, bytes):
        return True
    try:
        v.encode("utf-8")
        return True
    except UnicodeEncodeError:
        return False


def vary_case(sim, name):
    k = sim.draw_int(0, 2, "recase")
    return name if k == 0 else name.lower() if k == 1 else name.upper()


def conn_allows_close(version, conn):
    """May the server end the connection after the response to this request?  (Only used to decide how many of the pipelined
    requests MUST be answered; whether the server does close is persistence, not framing.)"""
    if version != b"HTTP/1.1":
        return True
    if conn is None:
        return False
    return b"close" in [t.strip(b" \t").lower() for t in conn.replace(b" ", b",").split(b",")]


def name_valid(name):
    try:
        b = name if isinstance(name, bytes) else name.encode("latin-1")
    except UnicodeEncodeError:
        return False
    return http1.is_token(b)


class Plan:
    pass


def gen_plan(sim, idx, avoid_reason_breaks):
    p = Plan()
    p.idx = idx
    p.code = sim.draw_choice(CODES, "code")
    p.reason = None
    if sim.draw_bool(0.5, "reason"):
        r = sim.draw_bytes(sim.draw_int(0, 10, "rlen"), REASON_BYTES)
        if not avoid_reason_breaks and sim.draw_bool(0.3, "rbreak"):
            cut = sim.draw_int(0, len(r), "rpos")
            r = r[:cut] + sim.draw_choice([b"\r\n", b"\n", b"\r"] + INJECT, "rinj") + r[cut:]
        if sim.draw_bool(0.08, "rctl"):
            r += sim.draw_choice(CONTROLS, "rctlbyte")
        p.reason = r
    p.header_ops = []
    for _ in range(sim.draw_int(0, 4, "nops")):
        op = sim.draw_choice(["set", "add", "set", "add", "setmulti", "setempty", "remove"], "hop")
        if p.header_ops and sim.draw_bool(0.35, "same-name"):
            # the same field again (any case): replaces / extends / must survive a refused call
            name = vary_case(sim, sim.draw_choice([o[1] for o in p.header_ops], "which-name"))
        else:
            name = gen_name(sim)
        if op in ("setempty", "remove"):
            value = []          # setRawHeaders(name, []) / removeHeader(name): afterwards the field has no value, so no line is sent for it
        elif op == "setmulti":
            value = [gen_hostile_value(sim) for _ in range(sim.draw_int(1, 3, "nvalues"))]
            if sim.draw_bool(0.3, "bad-in-list"):
                value[sim.draw_int(0, len(value) - 1, "bad-pos")] = gen_unencodable(sim)
        else:
            value = gen_unencodable(sim) if sim.draw_bool(0.12, "bad-value") else gen_hostile_value(sim)
        p.header_ops.append((op, name, value))
    p.cookies = []
    for _ in range(sim.draw_weighted([(0, 5), (1, 3), (2, 1)], "ncookies")):
        c = {"k": gen_hostile_value(sim), "v": gen_hostile_value(sim)}
        for attr in ("expires", "domain", "path", "max_age", "comment"):
            if sim.draw_bool(0.3, attr):
                c[attr] = gen_hostile_value(sim)
        c["secure"] = sim.draw_bool(0.3, "secure")
        c["httpOnly"] = sim.draw_bool(0.3, "httponly")
        c["sameSite"] = sim.draw_choice([None, "lax", b"Strict", "LAX"], "samesite")
        if sim.draw_bool(0.15, "bad-cookie"):
            # one component (first, middle or last of those given) cannot be encoded: the whole addCookie call is refused
            keys = [k for k in ("k", "v", "expires", "domain", "path", "max_age", "comment", "sameSite") if c.get(k) is not None]
            c[sim.draw_choice(keys[::-1], "bad-part")] = gen_unencodable(sim)
        p.cookies.append(c)
    p.writes = []
    for _ in range(sim.draw_int(0, 6, "nwrites")):
        if sim.draw_bool(0.3, "rawwrite"):
            p.writes.append(sim.draw_bytes(sim.draw_int(0, 12, "wlen")))
        else:
            p.writes.append(sim.draw_choice(BODY_BITS, "wbit"))
    p.explicit_cl = sim.draw_bool(0.35, "explicit-cl")
    p.cl_redeclared_badly = p.explicit_cl and sim.draw_bool(0.15, "cl-bad-redeclare")   # a refused second Content-Length set call
    p.cl_bad_name = sim.draw_choice([b"Content-Length", "content-length", b"CONTENT-LENGTH"], "cl-name") if p.cl_redeclared_badly else None
    p.mode = sim.draw_choice(["direct", "direct", "producer"], "wmode")
    p.first_sync = sim.draw_int(0, 2, "sync")     # 0: everything at process() time; 1: first write at process(); 2: nothing at process()
    # the application touches Content-Length but ends up NOT declaring one (a list of zero values, a refused declaration, a
    # declaration that is withdrawn again): the response must be framed exactly as if the field had never been mentioned
    p.cl_void = None
    if not p.explicit_cl and sim.draw_bool(0.2, "cl-void"):
        p.cl_void = sim.draw_choice(CL_VOID_KINDS, "cl-void-kind")
        p.cl_void_name = sim.draw_choice([b"Content-Length", "content-length", b"CONTENT-LENGTH", "Content-Length", b"content-length"], "cl-void-name")
    # the header block is handed to HTTPChannel.writeHeaders in its other documented form: an iterable of (name, value) two-tuples of
    # bytes, one tuple per value (what Request.write did before it passed a Headers object; request classes written against that API
    # still do), names in any case, plus 0-2 pairs of its own with hostile names / values
    p.pairs_form = None
    p.late_pairs = []
    if sim.draw_bool(0.15, "pairs-form"):
        p.pairs_form = sim.draw_choice(["list", "generator", "tuple"], "pairs-kind")
        for _ in range(sim.draw_weighted([(0, 3), (1, 2), (2, 1)], "nlate")):
            if p.header_ops and sim.draw_bool(0.4, "late-same-name"):
                n = sim.draw_choice([o[1] for o in p.header_ops], "late-which")
                n = vary_case(sim, n if isinstance(n, bytes) else n.encode("latin-1", "replace"))
            else:
                k = sim.draw_int(0, 2, "late-nkind")
                n = sim.draw_choice(GOOD_NAMES, "gname")
                if k == 1:
                    n = sim.draw_bytes(sim.draw_int(0, 5, "nlen"), NAME_ALPHABET)
                elif k == 2:
                    n += sim.draw_choice([b":", b" ", b"\r\n", b"\n", b": x\r\nY"], "ntail")
            p.late_pairs.append((n, _b(gen_hostile_value(sim))))
    # a Set-Cookie field set through the header API, alone or (knob) beside addCookie calls
    p.direct_cookie = None
    if sim.draw_bool(DIRECT_SET_COOKIE_P, "direct-set-cookie") and (not p.cookies or sim.draw_bool(MIX_COOKIE_APIS_P, "mix-cookie-apis")):
        when = sim.draw_choice(["before", "after"], "direct-cookie-when")
        op = "add" if when == "after" else sim.draw_choice(["set", "add"], "direct-cookie-op")
        p.direct_cookie = (when, op, sim.draw_choice([b"Set-Cookie", "set-cookie", b"SET-COOKIE", "Set-Cookie"], "direct-cookie-name"),
                           sim.draw_choice([b"direct=1", b"d=1; Path=/", "t=\u00e9"], "direct-cookie-plain") if sim.draw_bool(0.5, "direct-cookie-simple")
                           else gen_hostile_value(sim))
    # conditional request (If-None-Match / If-Modified-Since) and the helpers that answer it: setETag / setLastModified set a header
    # and, when the condition holds, change the status themselves (they say so by returning http.CACHED)
    p.cond = None
    p.early_cond = None
    if sim.draw_bool(0.12, "conditional"):
        p.cond = ("inm", sim.draw_choice(IF_NONE_MATCH, "inm")) if sim.draw_bool(0.5, "cond-kind") else \
            ("ims", sim.draw_choice(IF_MODIFIED_SINCE_OFFSETS, "ims"))
    if sim.draw_bool(0.5 if p.cond else 0.04, "early-helper"):
        kind = {"inm": "etag", "ims": "lastmod"}[p.cond[0]] if p.cond and sim.draw_bool(0.8, "helper-fits") else sim.draw_choice(["etag", "lastmod"], "helper")
        p.early_cond = (kind, sim.draw_choice(ETAGS, "etag") if kind == "etag" else sim.draw_choice(LASTMOD_OFFSETS, "lastmod"))
    # calls made after the head has gone out: (number of writes made before it >= 1, kind, argument)
    p.late_ops = []
    if p.writes and sim.draw_bool(LATE_P, "late-ops"):
        for _ in range(sim.draw_int(1, 2, "nlate-ops")):
            kind = sim.draw_choice(LATE_KINDS, "late-kind")
            at = sim.draw_int(1, len(p.writes), "late-at")
            if kind == "code":
                arg = (sim.draw_choice(LATE_CODES, "late-code"), sim.draw_bytes(sim.draw_int(1, 6, "late-rlen"), b"OK Err") if sim.draw_bool(0.3, "late-reason") else None)
            elif kind == "etag":
                arg = sim.draw_choice(ETAGS, "etag")
                if p.cond is None:
                    p.cond = ("inm", sim.draw_choice(IF_NONE_MATCH, "inm"))
            elif kind == "lastmod":
                arg = sim.draw_choice(LASTMOD_OFFSETS, "lastmod")
                if p.cond is None:
                    p.cond = ("ims", sim.draw_choice(IF_MODIFIED_SINCE_OFFSETS, "ims"))
            elif kind == "header":
                arg = (sim.draw_choice(GOOD_NAMES, "gname"), sim.draw_bytes(sim.draw_int(0, 6, "vlen"), b"ab1 -_."))
            else:
                arg = (sim.draw_bytes(sim.draw_int(1, 4, "vlen"), b"abk"), sim.draw_bytes(sim.draw_int(0, 4, "vlen"), b"ab1"))
            p.late_ops.append((at, kind, arg))
        p.late_ops.sort(key=lambda t: t[0])
    return p


def expected_cookie(c):
    out = _san(_b(c["k"])) + b"=" + _san(_b(c["v"]))
    for attr, label in (("expires", b"Expires"), ("domain", b"Domain"), ("path", b"Path"), ("max_age", b"Max-Age"), ("comment", b"Comment")):
        if attr in c:
            out += b"; " + label + b"=" + _san(_b(c[attr]))
    if c["secure"]:
        out += b"; Secure"
    if c["httpOnly"]:
        out += b"; HttpOnly"
    if c["sameSite"]:
        out += b"; SameSite=" + _b(c["sameSite"]).lower()
    return out


class PairsCapableRequest(H.RecRequest):
    """The real Request; when the application sets `pairs`, the header block that Request.write has put together (framing decision,
    cookies and all) reaches the real HTTPChannel.writeHeaders not as a Headers object but in the other documented form: an iterable
    of (name, value) two-tuples of bytes - one tuple per value, so a field with several values (several cookies) repeats its name -
    with names in any case and with the plan's own extra pairs (hostile names / values) among them."""

    pairs = None

    def write(self, data):
        if self.pairs is None or self.startedWriting or self.finished or self._disconnected:
            return H.RecRequest.write(self, data)
        sim, plan, transport, note_hostile = self.pairs
        channel = self.channel
        real = channel.writeHeaders

        def form(pairs):
            if plan.pairs_form == "generator":
                return ((n, v) for n, v in pairs)
            return list(pairs) if plan.pairs_form == "list" else tuple(pairs)

        def hand_over(version, code, reason, headers):
            pairs = [(vary_case(sim, n), v) for n, vs in headers.getAllRawHeaders() for v in vs]
            ranks = []      # position of each extra pair among the values of its field (the order of a field's values is significant)
            for n, v in plan.late_pairs:
                pos = sim.draw_int(0, len(pairs), "late-pos")
                ranks.append(sum(1 for m, _v in pairs[:pos] if m.lower() == n.lower()))
                pairs.insert(pos, (n, v))
            names = [n.lower() for n, _v in pairs]
            if len(set(names)) < len(names):
                sim.probe("pairs_form_with_repeated_name")
            bad = [n for n, _v in plan.late_pairs if not name_valid(n)]
            before = len(transport.written)
            try:
                real(version, code, reason, form(pairs))
                raised = None
            except Exception as e:
                raised = type(e).__name__
            sim.event("pairs", plan.idx, plan.pairs_form, len(pairs), "refused" if raised else "accepted")
            sim.fault("header_block_handed_over_as_pairs")
            sim.check("invalid-name-accepted", not bad or raised is not None, "pairs", lambda: "names %r were accepted by writeHeaders(%s)" % (bad, plan.pairs_form))
            sim.check("valid-name-refused", bad or raised is None, "pairs", lambda: "writeHeaders(%s of %r) raised %s" % (plan.pairs_form, pairs, raised))
            if raised is not None:
                # refused as a whole: nothing of the block may have been sent; the application leaves the offending pairs out and hands it over again
                sim.probe("pairs_form_refused_invalid_name")
                sim.check("refused-block-emitted", len(transport.written) == before, "pairs", lambda: "sent %r" % (bytes(transport.written[before:]),))
                pairs = [(n, v) for n, v in pairs if name_valid(n)]
                real(version, code, reason, form(pairs))
            for (n, v), rank in zip(plan.late_pairs, ranks):
                if name_valid(n):
                    plan.expected.setdefault(n.lower(), []).insert(rank, http1.norm_value(v))
                    note_hostile(v)

        channel.writeHeaders = hand_over
        try:
            return H.RecRequest.write(self, data)
        finally:
            del channel.writeHeaders


def run(sim):
    # process-global mutable state: the header-name canonicalisation cache survives between runs in a warm
    # worker; each run starts from an empty one so that a run is a pure function of its seed
    try:
        from twisted.web import http_headers as _hh
        _hh._nameEncoder._canonicalHeaderCache.clear()
    except AttributeError:
        pass
    nreq = sim.draw_int(1, 4, "nreq")
    # CR/LF in a reason phrase (the precondition of the reason-line-break defect of the tree as first examined, REPAIRED in /repo
    # 8367642) is allowed in 3 runs out of 4; the remaining quarter keeps it out (dev-time comparison with a tree without the repair)
    avoid_reason_breaks = not sim.draw_choice([False, True, True, True], "reason-breaks-allowed")
    hwm = sim.draw_choice([None, 40, 8, 200], "hwm")
    sync_loss = sim.draw_bool(0.15, "sync-loss")    # the transport reports the loss from inside loseConnection() (as in-memory transports do)
    plans = [gen_plan(sim, i, avoid_reason_breaks) for i in range(nreq)]
    reqs = []     # (method, version, Connection value or None)
    stream = bytearray()
    bounds = []
    for i in range(nreq):
        last = i == nreq - 1
        method = sim.draw_choice([b"GET", b"HEAD", b"POST", b"GET"], "method")
        version, conn = b"HTTP/1.1", None
        if last:
            k = sim.draw_int(0, 3, "lastkind")
            if k == 1:
                version = b"HTTP/1.0"
            elif k == 2:
                conn = b"close"
        elif sim.draw_bool(0.06, "early-http10"):
            version = b"HTTP/1.0"          # not only the last request of a pipeline may be HTTP/1.0
        if conn is None and sim.draw_bool(0.3 if (last or version == b"HTTP/1.0") else 0.08, "conn-header"):
            conn = sim.draw_choice(CONN_VALUES, "conn-value")
        w = method + b" /r%d " % i + version + b"\r\nHost: h.test\r\n"
        if conn is not None:
            w += sim.draw_choice([b"Connection", b"connection", b"CONNECTION"], "conn-name") + b": " + conn + b"\r\n"
        cond = plans[i].cond
        if cond is not None:
            # a conditional request: the validators the application's helpers (setETag / setLastModified) are compared with
            w += (b"If-None-Match: " + cond[1] if cond[0] == "inm" else b"If-Modified-Since: " + formatdate(H.EPOCH + cond[1], usegmt=True).encode("ascii")) + b"\r\n"
        if method == b"POST":
            w += b"Content-Length: 3\r\n\r\nabc"
        else:
            w += b"\r\n"
        stream += w
        bounds.append(len(stream))
        reqs.append((method, version, conn))
    stream = bytes(stream)
    # the server must answer every request up to and including the first one after which it may close the connection
    must_answer = nreq
    for i, (method, version, conn) in enumerate(reqs):
        if conn_allows_close(version, conn):
            must_answer = i + 1
            break
    sim.config = {"nreq": nreq, "avoid_reason_breaks": avoid_reason_breaks, "hwm": hwm, "sync_loss": sync_loss,
                  "codes": [p.code for p in plans], "methods": [r[0].decode() for r in reqs],
                  "versions": [r[1].decode() for r in reqs], "connection": [None if r[2] is None else r[2].decode() for r in reqs]}

    active = []     # at most one: [plan, request, remaining writes, producer]
    hostile = [0]

    def note_hostile(b):
        if any(c in (13, 10, 0, 59) or c > 126 for c in b):
            hostile[0] += 1

    def finish_active():
        plan, req, rest, prod = active.pop()
        if prod is not None:
            req.unregisterProducer()
        sim.event("finish", plan.idx)
        with sim.guard("finish-raised", "finish"):
            req.finish()
        plan.finished = True

    def late_call(plan, req, kind, arg):
        """a call the application makes after the head of this response has gone out.  Nothing of it can be in the head any more, and it
        must not change what the rest of the response looks like: plan.expected / plan.head_code are left alone."""
        sim.event("late", plan.idx, kind, repr(arg))
        sim.fault("request_used_after_head_was_sent")
        before = req.code
        try:
            if kind == "code":
                req.setResponseCode(*arg)
            elif kind == "etag":
                req.setETag(arg)
            elif kind == "lastmod":
                req.setLastModified(H.EPOCH + arg)
            elif kind == "header":
                req.setHeader(*arg)
            else:
                req.addCookie(*arg)
        except Exception:
            pass      # whether such a call is accepted is not judged
        if kind in ("etag", "lastmod") and req.code != before:
            sim.probe("conditional_helper_changed_status_after_head")
        if (req.code in http1.NO_BODY_STATUS) != (plan.head_code in http1.NO_BODY_STATUS) and plan.req_method != b"HEAD":
            sim.probe("status_after_head_on_other_side_of_no_body_boundary")

    def app_step():
        plan, req, rest, prod = active[0]
        done = len(plan.writes) - len(rest)
        if plan.late_pending and plan.late_pending[0][0] <= done:
            _at, kind, arg = plan.late_pending.pop(0)
            late_call(plan, req, kind, arg)
            return
        if rest:
            data = rest.pop(0)
            sim.event("write", plan.idx, data)
            with sim.guard("write-raised", "write"):
                req.write(data)
        else:
            finish_active()

    def app(srv, req, idx):
        plan = plans[idx]
        plan.finished = False
        plan.expected = {}          # lower name -> [normalised values]
        plan.unknown = set()        # lower names on which there is no verdict (a value outside every encoding was accepted)
        plan.reason_refused = False
        plan.req_method = req.method
        plan.head_code = plan.code      # the status in force when the head goes out
        plan.late_pending = list(plan.late_ops)
        plan.cookie_apis_mixed = False
        try:
            req.setResponseCode(plan.code, plan.reason)
        except Exception:
            plan.reason_refused = True     # refusing at set time is an acceptable way of not emitting it
            req.setResponseCode(plan.code)
        if plan.reason is not None:
            note_hostile(plan.reason)
        for op, name, value in plan.header_ops:
            valid = name_valid(name)
            values = value if op in ("setmulti", "setempty", "remove") else [value]
            good_value = all(encodable(v) for v in values)
            try:
                if op == "set":
                    req.setHeader(name, value)
                elif op == "add":
                    req.responseHeaders.addRawHeader(name, value)
                elif op == "remove":
                    req.responseHeaders.removeHeader(name)
                else:
                    req.responseHeaders.setRawHeaders(name, list(value))
                raised = None
            except Exception as e:
                raised = type(e).__name__
            sim.event("header", idx, op, repr(name), "refused" if raised else "accepted")
            if op == "remove":
                # not a set call: the statement says nothing about whether removing under an invalid name raises.  Under a valid
                # name the field is gone afterwards (earlier values must not be sent); should the call raise, no verdict on the field
                if valid:
                    key = (name if isinstance(name, bytes) else name.encode("latin-1")).lower()
                    if raised is None:
                        if plan.expected.pop(key, None):
                            sim.probe("header_removed_after_values_were_set")
                    else:
                        plan.unknown.add(key)
                continue
            if op == "setempty" and valid and raised is None and plan.expected.get((name if isinstance(name, bytes) else name.encode("latin-1")).lower()):
                sim.probe("header_set_to_zero_values_after_values_were_set")
            sim.check("invalid-name-accepted", valid or raised is not None, op, lambda: "name %r was accepted" % (name,))
            sim.check("valid-name-refused", not (valid and good_value) or raised is None, op, lambda: "name %r value %r raised %s" % (name, value, raised))
            if valid and not good_value:
                key = (name if isinstance(name, bytes) else name.encode("latin-1")).lower()
                if raised is not None:
                    # a refused set call changes nothing: earlier values of that field survive, no value of the refused call is emitted
                    # (plan.expected stays as it is)
                    sim.fault("set_call_refused_unencodable_value")
                    if key in plan.expected:
                        sim.probe("refused_call_after_earlier_value_of_that_field")
                    if op == "setmulti" and encodable(values[0]):
                        sim.probe("refused_list_with_good_values_before_the_bad_one")
                else:
                    plan.unknown.add(key)      # accepted: the statement does not say what such text becomes on the wire; no verdict on this field
                continue
            if raised is not None and not valid:
                # an application that catches the refusal and retries (or a second request reflecting the same
                # name) must be refused again: refusal must not depend on the name having been seen before
                try:
                    req.responseHeaders.addRawHeader(name, values[0] if values and encodable(values[0]) else b"v")
                    again = None
                except Exception as e:
                    again = type(e).__name__
                sim.probe("invalid_name_retried")
                sim.check("invalid-name-accepted", again is not None, "retry", lambda: "name %r was refused at first and accepted when used again" % (name,))
            if raised is None:
                key = (name if isinstance(name, bytes) else name.encode("latin-1")).lower()
                nvs = [http1.norm_value(_b(v)) for v in values]
                for v in values:
                    note_hostile(_b(v))
                if op == "add":
                    plan.expected.setdefault(key, []).extend(nvs)
                else:
                    plan.expected[key] = nvs
        def direct_cookie():
            _when, op, name, value = plan.direct_cookie
            if op == "set":
                req.setHeader(name, value)
                plan.expected[b"set-cookie"] = [http1.norm_value(_b(value))]
            else:
                req.responseHeaders.addRawHeader(name, value)
                plan.expected.setdefault(b"set-cookie", []).append(http1.norm_value(_b(value)))
            note_hostile(_b(value))
            sim.event("direct-set-cookie", idx, op)
            sim.fault("set_cookie_field_set_through_header_api")

        if plan.direct_cookie is not None and plan.direct_cookie[0] == "before":
            direct_cookie()     # "set" only here: nothing of addCookie's can be replaced by it yet
        accepted_cookies = 0
        for c in plan.cookies:
            kw = dict(expires=c.get("expires"), domain=c.get("domain"), path=c.get("path"), max_age=c.get("max_age"),
                      comment=c.get("comment"), secure=c["secure"], httpOnly=c["httpOnly"], sameSite=c["sameSite"])
            if not all(encodable(x) for x in c.values() if isinstance(x, (bytes, str))):
                try:
                    req.addCookie(c["k"], c["v"], **kw)
                    plan.unknown.add(b"set-cookie")      # accepted: no verdict on the cookies of this response
                except Exception:
                    # refused: the cookies added before survive, nothing of this one is emitted
                    sim.fault("cookie_refused_unencodable_part")
                continue
            with sim.guard("cookie-raised", "addCookie"):
                req.addCookie(c["k"], c["v"], **kw)
            plan.expected.setdefault(b"set-cookie", []).append(http1.norm_value(expected_cookie(c)))
            accepted_cookies += 1
            for x in c.values():
                if isinstance(x, (bytes, str)):
                    note_hostile(_b(x))
        if plan.direct_cookie is not None:
            if plan.direct_cookie[0] == "after":
                direct_cookie()
            if accepted_cookies:
                # both APIs used for one response: all of it is "set"; the order between the two groups is not judged
                plan.cookie_apis_mixed = True
                sim.probe("set_cookie_header_api_and_addCookie_in_one_response")
        total = sum(len(w) for w in plan.writes)
        if plan.cl_void is not None:
            # Content-Length is mentioned but, in the end, not declared: nothing of it may be sent and the framing is that of a
            # response without a declared length
            kind, clname, bad = plan.cl_void, plan.cl_void_name, "%d" % total + "\udce9"
            if kind.startswith("set-then-"):
                req.setHeader(b"Content-Length", b"%d" % total)
            try:
                if kind in ("empty-list", "set-then-empty"):
                    req.responseHeaders.setRawHeaders(clname, [])
                elif kind == "set-then-remove":
                    req.responseHeaders.removeHeader(clname)
                elif kind == "refused-add":
                    req.responseHeaders.addRawHeader(clname, bad)
                elif kind == "refused-set":
                    req.setHeader(clname, bad)
                else:
                    req.responseHeaders.setRawHeaders(clname, ["%d" % total, bad])
                if kind.startswith("refused-"):
                    plan.unknown.add(b"content-length")     # accepted: no verdict on the field (see ASSUMPTIONS)
                sim.fault("content_length_mentioned_not_declared")
            except Exception:
                if kind.startswith("refused-"):
                    sim.fault("content_length_mentioned_not_declared")
                    sim.fault("content_length_declaration_refused_none_in_force")
                else:
                    plan.unknown.add(b"content-length")     # withdrawing a declaration raised: the statement does not cover that; no verdict
            sim.event("cl-void", idx, kind)
        if plan.explicit_cl:
            req.setHeader(b"Content-Length", b"%d" % total)
            plan.expected[b"content-length"] = [b"%d" % total]
            if plan.cl_redeclared_badly:
                try:
                    req.setHeader(plan.cl_bad_name, "%d" % total + "\udce9")
                    plan.unknown.add(b"content-length")
                except Exception:
                    sim.fault("content_length_redeclaration_refused")      # the declared length stays in force
        if plan.early_cond is not None:
            # the conditional-request helpers, before anything is written: each sets a field of the response (ETag / Last-Modified) and, if
            # it returns http.CACHED, has changed the status itself: 304, or 412 from setETag on a method other than GET/HEAD (documented)
            kind, arg = plan.early_cond
            with sim.guard("helper-raised", kind):
                ret = req.setETag(arg) if kind == "etag" else req.setLastModified(H.EPOCH + arg)
            sim.event("helper", idx, kind, repr(arg), "cached" if ret else "-")
            if kind == "etag":
                plan.expected[b"etag"] = [http1.norm_value(arg)]
            elif not plan.expected.get(b"last-modified"):
                plan.expected[b"last-modified"] = [formatdate(H.EPOCH + arg, usegmt=True).encode("ascii")]
            if ret:
                sim.fault("status_set_by_conditional_request_helper")
                plan.head_code = 304 if kind == "lastmod" or req.method in (b"GET", b"HEAD") else 412
                plan.reason_refused = True      # the reason phrase given with the first status is not the one of this status: no verdict
        rest = list(plan.writes)
        prod = None
        if plan.mode == "producer":
            prod = H.BodyProducer(sim, req, rest, None)
            req.registerProducer(prod, True)
        if plan.pairs_form is not None:
            req.pairs = (sim, plan, srv.t, note_hostile)
        active.append([plan, req, rest, prod])
        if plan.first_sync == 0:
            while active and active[0][0] is plan and (prod is None or prod.ready()):
                app_step()
        elif plan.first_sync == 1 and rest:
            app_step()

    srv = H.Server(sim, app, timeout=3600, hwm=hwm, sync_loss=sync_loss)
    srv.proto.requestFactory = PairsCapableRequest
    pieces = net.cut(sim, stream, boundaries=bounds)
    queue = list(pieces)
    ticks = 0
    with sim.guard("server-raised", "drive"):
        while True:
            sim.step(5000)
            ev = []
            if queue and srv.can_deliver() and not srv.t.disconnecting:     # a transport that was told to close reads no more
                ev.append(("deliver", 4))
            if active and (active[0][3] is None or active[0][3].ready()):
                ev.append(("app", 4))
            if srv.t.out:
                ev.append(("take", 2))
            if ev and ticks < 12 and (queue or active):
                ev.append(("tick", 1))
            if not ev:
                break
            what = sim.draw_weighted(ev, "ev")
            if what == "deliver":
                srv.deliver(queue.pop(0))
            elif what == "app":
                app_step()
            elif what == "take":
                srv.t.take()
            else:
                ticks += 1
                dt = sim.draw_choice([0.01, 1.0, 7.5, 59.0], "dt")
                sim.clock.advance(dt)
                sim.sim_time += dt
    if srv.t.log.count("pause"):
        sim.probe("producer_paused_by_transport", srv.t.log.count("pause"))
    closed = srv.t.close_at is not None          # the server itself asked for the connection to end
    stuck = bool(active) or (bool(queue) and not closed)
    nd = len(srv.delivered)                      # requests that reached the application; each of them owes exactly one response
    if closed and nd < nreq:
        sim.probe("server_closed_before_last_pipelined_request")
    srv.lose(clean=True)
    wire = bytes(srv.t.written)
    sim.event("wire", len(wire), wire)

    def detail():
        return "requests=%r delivered=%d server-closed=%s\n plans=%r\n wire=%r" % (
            reqs, nd, closed, [(p.code, p.reason, p.header_ops, p.cookies, p.writes, p.explicit_cl, p.mode, p.direct_cookie, p.cond, p.early_cond, p.late_ops) for p in plans], wire)

    sim.check("responses-missing", not stuck and must_answer <= nd <= nreq and all(getattr(p, "finished", False) for p in plans[:nd]), "stuck", detail)

    def canon(name, v):
        """comparison form of a field value: line breaks -> SP, SP runs collapsed, OWS stripped; for Set-Cookie additionally
        whitespace next to '=' and ';' is not significant (a line break at the end of a cookie component may vanish or become SP)."""
        v = http1.norm_value(v)
        if name == b"set-cookie":
            v = re.sub(rb"[ \t]*([=;])[ \t]*", rb"\1", v)
        return v

    def check_response(i, plan, pos):
        """-> (failure or None, parsed response or None).  failure = (clause, witness, detail)."""
        method, version, _conn = reqs[i]
        last = i == nd - 1          # the last response on this connection
        code = plan.head_code       # the status in force when the head went out; what the application does to the status later changes nothing
        nobody = method == b"HEAD" or code in http1.NO_BODY_STATUS
        cls = "head" if method == b"HEAD" else "no-body-code" if code in http1.NO_BODY_STATUS else \
            "http10" if version == b"HTTP/1.0" else "explicit-cl" if plan.explicit_cl else "chunked"
        rs, st, used = http1.parse_responses(wire[pos:], [method], eof=True)
        if not (len(rs) == 1 and (st == "ok" or (isinstance(st, tuple) and st[0] == "extra"))):
            return ("unparseable", cls, "response %d at offset %d: %r" % (i, pos, st)), None
        r = rs[0]
        if r.framing == "close" and not last:
            return ("framing", "close-delimited-not-last", "response %d" % i), r
        if r.framing == "close" and not closed:
            # neither Content-Length nor chunked (nor a status/method without body): only the end of the connection can delimit it
            return ("framing", "close-delimited-connection-left-open:" + cls, "response %d: nothing delimits the body and the server did not close" % i), r
        if r.code != code:
            return ("status", "code", "response %d: %r != %r" % (i, r.code, code)), r
        if plan.reason is not None and not plan.reason_refused and http1.norm_value(r.reason) != http1.norm_value(plan.reason):
            return ("reason", "given", "response %d: reason %r, set %r" % (i, r.reason, plan.reason)), r
        got = {}
        for n, v in r.headers:
            got.setdefault(n, []).append(canon(n, v))
        te = got.pop(b"transfer-encoding", None)
        conn = got.pop(b"connection", None)
        if not (te in (None, [b"chunked"]) and (te is None or (not nobody and version == b"HTTP/1.1" and not plan.explicit_cl))):
            return ("framing", "transfer-encoding:" + cls, "response %d: Transfer-Encoding %r" % (i, te)), r
        if not (te is not None or nobody or plan.explicit_cl or last or r.framing != "close"):
            return ("framing", "unframed:" + cls, "response %d" % i), r
        if conn is not None and [v.lower() for v in conn] not in ([b"close"], [b"keep-alive"]):
            return ("headers", "connection", "response %d: Connection %r" % (i, conn)), r
        want = dict((n, [canon(n, v) for v in vs]) for n, vs in plan.expected.items() if vs)      # a field with zero values has no line
        for n in plan.unknown:
            got.pop(n, None)
            want.pop(n, None)
        if plan.cookie_apis_mixed:
            for d in (got, want):
                if b"set-cookie" in d:
                    d[b"set-cookie"] = sorted(d[b"set-cookie"])
        if got != want:
            names = sorted(set(got) | set(want))
            bad = [n for n in names if got.get(n) != want.get(n)][0]
            w = "cookie-apis-mixed" if bad == b"set-cookie" and plan.cookie_apis_mixed else "cookie" if bad == b"set-cookie" else "extra" if bad not in want else "missing" if bad not in got else "value"
            return ("headers", w, "response %d header %r: wire %r, set %r" % (i, bad, got.get(bad), want.get(bad))), r
        body = b"" if nobody else b"".join(plan.writes)
        if r.body != body:
            return ("body", cls, "response %d: body %r, written %r" % (i, r.body, body)), r
        return None, r

    taint = []   # set once a reason phrase containing CR/LF is seen verbatim on the wire

    def fail(clause, witness, text):
        if taint:
            # the predicted defect (DESIGN s.8): the reason phrase reaches the status line with its CR/LF.  Depending on where the break
            # sits this shows as a bare CR/LF in the status line, an injected field line, a header section that ends early, or stray
            # bytes in front of the next response / after the last one; all of it is reported under one stable signature.
            sim.fail("reason-line-break", "status-line", "%s  [seen as %s:%s %s]" % (taint[0], clause, witness, text[:300]))
        sim.fail(clause, witness, text)

    pos = 0
    parsed = []
    for i, plan in enumerate(plans[:nd]):
        has_break = plan.reason is not None and (b"\r" in plan.reason or b"\n" in plan.reason) and not plan.reason_refused
        if has_break:
            sim.probe("reason_with_line_break")
            if not taint and wire.startswith(reqs[i][1] + b" %d " % plan.head_code + plan.reason + b"\r\n", pos):
                taint.append("response %d: setResponseCode(%d, %r) -> wire %r" % (i, plan.code, plan.reason, wire[pos:pos + 200]))
        failure, r = check_response(i, plan, pos)
        if failure is not None:
            fail(failure[0], failure[1], failure[2] + "\n" + detail())
        parsed.append(r)
        pos += r.end
    if pos != len(wire):
        fail("extra-bytes", "after-last-response", "%r\n%s" % (wire[pos:], detail()))

    # independent parser
    clean = all(H.h11_clean(v) for p in plans[:nd] for vs in p.expected.values() for v in vs) and \
        all(p.reason is None or H.h11_clean(p.reason) for p in plans[:nd]) and not any(p.unknown for p in plans[:nd])
    # h11's client side ends its cycle after an HTTP/1.0 exchange; a server that went on after one cannot be followed with it
    followable = all(version == b"HTTP/1.1" for (_m, version, _c) in reqs[:nd - 1])
    if clean and followable:
        hs, hst = H.h11_responses(wire, [(m, v, i == nd - 1 and closed) for i, (m, v, _c) in enumerate(reqs[:nd])], eof=True)
        sim.probe("h11_checked")

        def hdetail():
            return "h11 status=%s responses=%r\n%s" % (hst, hs, detail())

        if not (hst == "ok" and len(hs) == nd):
            fail("h11-disagrees", "parse", hdetail())
        for i, (h, r) in enumerate(zip(hs, parsed)):
            hh = sorted((n, http1.norm_value(v)) for n, v in h[2])
            rh = sorted((n, http1.norm_value(v)) for n, v in r.headers)
            if h[0] != r.code:
                fail("h11-disagrees", "status", hdetail())
            if hh != rh:
                fail("h11-disagrees", "headers", hdetail())
            if h[3] != r.body:
                fail("h11-disagrees", "body", hdetail())
    elif not clean:
        sim.probe("h11_skipped_unclean_value")
    sim.state((nreq, nd, tuple(p.head_code in http1.NO_BODY_STATUS for p in plans[:nd]), hwm, closed, sync_loss))
    sim.nontrivial = bool(parsed) and hostile[0] > 0


MUTANTS = [
    "(run with a scratch tally tool, 1500 runs each, because the tree as first examined already had the analysed reason-line-break finding, since REPAIRED in /repo 8367642; 'caught' = other signatures appear)",
    "CAUGHT http.py Request.addCookie._sanitize: drop `.replace(b';', b' ')` (cookie attribute injection) -> headers:cookie",
    'CAUGHT http_headers.py _sanitizeLinearWhitespace: return the component unchanged (CR/LF pass through header values) -> unparseable:*, headers:value',
    'CAUGHT http.py Request.write: drop the HEAD branch (`self.write = lambda data: None`) (body emitted for HEAD) -> extra-bytes:after-last-response, unparseable:*',
    'CAUGHT http.py Request.write: `if data:` -> `if True:` (empty write emits the terminating zero chunk early) -> body:chunked, extra-bytes',
    'CAUGHT http.py Request.write: drop `and self.code not in NO_BODY_CODES` from the chunked decision -> framing:transfer-encoding:no-body-code',
    'CAUGHT http.py toChunk: chunk size in decimal instead of hex -> unparseable:chunked, body:chunked',
    'CAUGHT http_headers.py _NameEncoder.encode: drop the _istoken check -> invalid-name-accepted:set / :add',
    'CAUGHT http.py Request.finish: drop the terminating `0\\r\\n\\r\\n` -> unparseable:chunked',
    'CAUGHT http.py Request.write: drop the NO_BODY_CODES branch (body emitted for 204/304) -> extra-bytes:after-last-response, unparseable:*',
    'SURVIVED (outside the statement) http.py checkPersistence: keep the connection open after `Connection: close` - persistence, not framing; the response bytes are unchanged',
    'CAUGHT (round 4) http.py HTTPChannel.requestDone: non-persistent branch `self.loseConnection()` -> `pass` (an HTTP/1.0 response without Content-Length is never delimited) -> framing:close-delimited-connection-left-open:http10',
    'CAUGHT (round 4) http.py checkPersistence: HTTP/1.0 + `Connection: keep-alive` made persistent -> framing:close-delimited-not-last, framing:close-delimited-connection-left-open:http10',
    'CAUGHT (round 4) http_headers.py Headers.setRawHeaders: entry reset first, values appended one by one (a refused call wipes earlier values / emits the leading good values) -> headers:missing, headers:extra, framing:transfer-encoding:explicit-cl',
    'CAUGHT (round 4) http.py Request.addCookie: cookie appended before the sameSite component is validated (a refused addCookie still emits the cookie) -> headers:cookie',
    'CAUGHT (round 5) http.py Request.write: `getRawHeaders(b"Content-Length") is None` -> `not hasHeader(b"Content-Length")` (an entry with zero values switches chunking off) -> framing:close-delimited-not-last, framing:close-delimited-connection-left-open:chunked',
    'CAUGHT (round 5) http_headers.py Headers.getRawHeaders: `if not values` -> `if encodedName not in self._rawHeaders` (an empty entry is returned as []) -> same two framing signatures',
    'CAUGHT (round 5) http.py HTTPChannel.writeHeaders: `for value in values` -> `for value in values or [b""]` (a field with zero values gets an empty line) -> headers:extra, unparseable:http10',
    'CAUGHT (round 5) http_headers.py Headers.removeHeader: entry not popped -> headers:extra, headers:value',
    'CAUGHT (round 5) http.py HTTPChannel.writeHeaders two-tuple branch: `Headers({name: [value] for ...})` (repeated names collapse) -> headers:value, headers:cookie',
    'CAUGHT (round 5) http.py HTTPChannel.writeHeaders two-tuple branch: `addRawHeader(name, value)` -> `setRawHeaders(name, [value])` -> headers:value, headers:cookie',
    'CAUGHT (round 5) http.py HTTPChannel.writeHeaders two-tuple branch: pairs stored without name check / sanitising -> invalid-name-accepted:pairs, unparseable:*',
    'CAUGHT (round 6) http.py Request.write: the HEAD / NO_BODY_CODES test taken on every write from the current self.code instead of once when the head goes out -> unparseable:no-body-code, body:chunked, body:explicit-cl',
    'CAUGHT (round 6) http.py Request.write: `if self.etag is not None:` -> `if False:` (setETag no longer sets the field) -> headers:missing, headers:value; likewise `if self.lastModified is not None:` -> headers:missing',
    'CAUGHT (round 6) http.py Request.setETag: PRECONDITION_FAILED -> NOT_MODIFIED (a matching POST gets 304 and loses its body) -> status:code',
    'CAUGHT (round 6) http.py Request.write: the no-op installed after a 204/304 head re-reads self.code (`lambda data: self.code in NO_BODY_CODES or self.channel.write(data)`) -> unparseable:no-body-code, extra-bytes:after-last-response',
    'FIX-CHECK (round 6) http.py Request.write: cookies appended with addRawHeader instead of setRawHeaders(b"Set-Cookie", self.cookies): headers:cookie-apis-mixed disappears, 0 violations in 28000 runs with MIX_COOKIE_APIS_P = 0.25; this is the repair now in /repo 6461a49',
    'GENUINE DEFECT (round 6) of the tree as first examined, REPAIRED in /repo 6461a49: http.py Request.write: `setRawHeaders(b"Set-Cookie", self.cookies)` dropped a Set-Cookie field set through setHeader/addRawHeader as soon as addCookie was used -> headers:cookie-apis-mixed (precondition let into the MIX_COOKIE_APIS_P = 0.25 share of the responses that use both APIs; 0 switches it off, only for dev-time comparison)',
    'FIX-CHECK http.py HTTPChannel.writeHeaders: `reason` -> `_sanitizeLinearWhitespace(reason)`: reason-line-break disappears, 0 violations in 6000 runs (1782 responses with CR/LF in the reason); this is the repair now in /repo 8367642',
]
