"""C48 — HTTP Digest credentials verify exactly the right responses.

Engine E2 (clock).  Real DigestCredentialFactory objects (directly, or through
the twisted.web wrapper) issue challenges to clients at several addresses at
simulated times (`_getTime` -> sim.clock, `credentials.secureRandom` -> values
derived from one tape entry, never repeated within a history).  One to four
factories live side by side, for the same or for different realms; some are
created while challenges of the earlier ones are outstanding.  A challenge
counts as issued only for the factory that handed it out: the oracle never
looks at a factory's key.
The tape plays challenge / clock-advance / respond histories; a response is
built by an independent RFC 2617 client (hashlib only) and is honest, computed
with a wrong password, replayed from another address or to another factory,
sent across the lifetime boundary (exactly at, one second before/after), has a
tampered nonce or opaque, or has field-level / raw byte-level mutations.
Honest clients also leave optional parameters out: no qop/nc/cnonce (RFC 2069
form) and no algorithm parameter (which RFC 2617 3.2.1 defines to mean MD5,
whatever algorithm the factory was configured to offer).

A request seen before is presented again byte for byte - at once or after the clock has moved past the lifetime, from the same or
from another address - and is judged by the statement at that moment (whatever a factory or a credentials object remembers).
In half of the runs a second kind of checker stands beside the password-storing one: it keeps H(username:realm:password) and asks
the decoded credentials through checkHash, in tape-chosen order with the checkPassword questions; the same accept/reject clauses
apply to it (clause names with the suffix -checkHash).

Oracle (from the statement):
  valid context (unmodified response to an issued challenge, same address,
  age <= lifetime)            -> decode succeeds and checkPassword(p) is true
                                 exactly for the password the client used;
  invalid context             -> LoginFailed from decode, or checkPassword false
                                 for every password;
  arbitrary mutation          -> anything accepted must be justified (issued
                                 nonce/opaque pair for that address in its
                                 lifetime, not two different passwords, and for
                                 regular-shaped responses the response hash must
                                 equal the independent computation for the
                                 algorithm and form the header DENOTES - read from
                                 the parameters the client sent wherever the header
                                 is unambiguous, not from the decoded object's
                                 field table; absent algorithm = MD5);
  always                      -> decode raises nothing but LoginFailed and
                                 checkPassword / checkHash raise nothing.
The last clause has one signature per entry point and escaping exception type (see KNOWN; all
REPAIRED in /repo 3cc82cb).  A share of the runs (`avoid_known`, 15%, kept for dev-time comparison)
restricts mutations to classes that cannot reach those escapes.
Three points on which the tree as first examined departed from the letter of the statement are behind module-level knobs
(OPAQUE_TEXT_STRICT_P, QUOTED_BLANKS_STRICT_P, HASH_ENTRY_ON_WILD_P; see there); all three are REPAIRED in /repo
(8142fa3, 953247d, 80b08da) and the knobs are at 1.0.
"""
import base64
import hashlib
import os

from twisted.cred import credentials, error
from twisted.internet.address import IPv4Address

ID = "C48"
ENGINE = "clock"
LEVEL = "exploration"
TECHNIQUE = ("deterministic simulation: seeded challenge/advance/respond histories with simulated clock and tape-driven randomness "
             "on real DigestCredentialFactory/DigestedCredentials vs an independent RFC 2617 client and challenge ledger")
QUICK_RUNS = 70000
TWIN_P = 0.08   # this share of the runs drives two independent instances of the scenario one after the other (detsim.runner._run_scenario)
USES_DEPTH = True   # thorough tier: history length bound scales with sim.depth (1..3) beyond the quick tier\'s run indices
BATCH = 25
RUN_WALL_LIMIT_S = 60   # the machine is shared; a run itself takes about a millisecond
COMPONENTS = {"real": ["twisted.cred.credentials.DigestCredentialFactory (getChallenge/_generateOpaque/_verifyOpaque/decode)",
                       "twisted.cred.credentials.DigestedCredentials.checkPassword", "twisted.cred._digest", "twisted.web._auth.digest.DigestCredentialFactory"],
              "stub": ["wall clock (_getTime -> SimClock)", "secureRandom (values derived from a tape entry and a call counter, pairwise distinct)", "HTTP request object (method + client address)"]}
RULE = ("run = 1..3 factories at the start (md5/sha, direct or via the twisted.web wrapper, each for one of two realms - usually the same one), up to 4 with those "
        "created in mid-history; 6..24 tape-chosen steps: create another factory, issue a challenge to one of 3 addresses, "
        "advance the clock (seconds to twice the lifetime, or exactly to lifetime-1/lifetime/lifetime+1 of a chosen challenge), or answer a chosen challenge with a "
        "response of a drawn class (honest, legacy-no-qop, algorithm parameter left out (hashed with MD5 as the header then denotes, or with the challenge's algorithm), wrong password, other address, other factory, nonce tamper, opaque tamper/forgery/truncation, "
        "field drop, field value byte mutation, raw header byte mutation, algorithm/qop substitution), or present one of the last 8 requests again byte for byte "
        "(now or after the lifetime, a quarter of them from another address); in half of the runs every decoded credentials object is also asked through checkHash "
        "with the H(A1) a hash-storing checker has on file for the decoded user, interleaved with the checkPassword questions; "
        "non-trivial = at least one accepted honest response AND at least two rejected/mutated responses")
ASSUMPTIONS = ["times are whole seconds apart (the implementation truncates to int seconds; sub-second age is not judged)",
               "a response whose age equals the lifetime exactly is 'within' the lifetime",
               "an opaque whose base64 part differs textually but decodes (leniently) to the same bytes is not counted as altered",
               "a response without an algorithm parameter denotes an MD5 response (RFC 2617 3.2.1): an MD5 answer without the parameter to an md5 factory's challenge "
               "is an ordinary valid response; to a factory configured for another algorithm its acceptance is not demanded (no verdict), but whatever is accepted "
               "must be the digest for the algorithm the header denotes, never for another one (e.g. the factory's)",
               "what a header denotes is taken from the client's own parameter dict when every value is plain (printable ASCII, no quote/backslash/comma, blanks only "
               "inside quoted values, unquoted values bare tokens) and the header has no raw edit; otherwise from the decoded fields as before",
               "a response repeated unchanged is accepted again (the statement does not make challenges single-use) - as long as its challenge is within "
               "its lifetime and it comes from the address the challenge was issued to; a repetition after the lifetime or from elsewhere must be refused",
               "a hash-storing checker looks the account up by the decoded user name and hands checkHash H(username:realm:password) computed with the factory's "
               "algorithm; it asks nothing about a user name it does not know.  A valid response is accepted exactly for the H(A1) of the password the client used; "
               "an acceptance for a header that denotes another algorithm than the one the H(A1) on file was made with gets no verdict on the response hash",
               "checkHash is asked for the wild mutation classes only in a HASH_ENTRY_ON_WILD_P share of the runs (0.0 until checkHash has the guards of checkPassword); "
               "a quoted value with a blank at either end is judged by the decoded (stripped) fields unless the run is strict (QUOTED_BLANKS_STRICT_P); "
               "the lenient-base64 assumption above is dropped in strict runs (OPAQUE_TEXT_STRICT_P)",
               "'issued' is per factory: an unaltered answer to a challenge of one factory is not an issued challenge for any other factory of the process "
               "(same or other realm, created before or after the challenge); the random source never returns the same value twice in a history, so "
               "two factories have nothing in common unless the code under test shares it"]

KNOWN = ["C48:decode-raised:binascii.Error", "C48:decode-raised:UnicodeDecodeError",
         "C48:checkPassword-raised:KeyError", "C48:checkPassword-raised:TypeError",
         # round 6, behind the knobs below (now 1.0; the defects are REPAIRED in /repo 80b08da, 8142fa3, 953247d):
         "C48:checkHash-raised:KeyError", "C48:checkHash-raised:TypeError", "C48:unaltered-opaque-text:lenient-base64",
         "C48:accepted-is-justified:quoted-blanks-context", "C48:accepted-is-justified:quoted-blanks-response-hash"]

# Knobs for three behaviours of the tree as first examined, found by reading (round 6), each inside the letter of the statement ("accept ...
# if and only if ... over an unaltered challenge", "any malformed or tampered response is rejected as an ordinary login failure, never another
# exception") - genuine defects, all three REPAIRED in /repo (8142fa3, 953247d, 80b08da).  Each knob is the share of the runs in which the
# oracle insists on the point: now 1.0 (every run); 0.0 = the point gets no verdict (only a probe counts how often the real code meets it)
# and is only for dev-time comparison.  What each defect was, before its repair:
#  * OPAQUE_TEXT_STRICT_P: an opaque whose text differs from the issued one, but whose base64 part decodes (leniently: alphabet-foreign
#    bytes skipped, surplus padding, loose trailing bits) to the same key, was accepted by _verifyOpaque (repaired: 8142fa3).  Strict runs
#    report it as C48:unaltered-opaque-text:lenient-base64.
#  * QUOTED_BLANKS_STRICT_P: decode() stripped blanks from the content of QUOTED values (repaired: 953247d), so nonce=" <issued>",
#    opaque="<issued> ", response=" <hash>" ... were accepted although the parameter the header denotes (RFC 7230 quoted-string: the content is literal) was never
#    issued / is not the digest.  Strict runs judge such headers by the parameters as sent; signatures C48:accepted-is-justified:quoted-blanks-*.
#  * HASH_ENTRY_ON_WILD_P: DigestedCredentials.checkHash (the entry point of checkers that store H(A1) instead of the password) lacked the
#    guards checkPassword has (repaired: 80b08da): algorithm=md6 -> KeyError; missing uri / qop=auth-int / md5-sess without cnonce -> TypeError.  checkHash is
#    always asked for the mutation classes that cannot reach these; in this share of the runs also for the others
#    (signatures C48:checkHash-raised:KeyError / TypeError).
OPAQUE_TEXT_STRICT_P = 1.0
QUOTED_BLANKS_STRICT_P = 1.0
HASH_ENTRY_ON_WILD_P = 1.0
HASH_CHECKER_P = 0.5     # share of the runs in which a hash-storing checker (checkHash) stands beside the password-storing one
REPEAT_LOG = 8           # how many earlier requests are kept for byte-identical repetition

DEV_IGNORE = set(filter(None, os.environ.get("VERIF_C48_DEV_IGNORE", "").split(",")))
LIFETIME = 15 * 60
REALMS = [b"test realm", b"test realm", b"other realm"]   # two factories usually guard the same realm
MAX_FACTORIES = 4
USERS = [(b"alice", b"secret"), (b"bob", b"hunter2")]
WRONG = b"not-the-password"
ADDRS = ["10.0.0.1", "10.0.0.2", None]
HEX = b"0123456789abcdef"
B64 = b"ABCDEFGHIJKLMNOPQRSTUVWXYZabcdefghijklmnopqrstuvwxyz0123456789+/"
MUT_BYTES_TAME = b'a0Z9 -._~/:'
MUT_BYTES_WILD = b'",= -\\\x00\xff\x80A0\n\r;'
ORDER = ["username", "realm", "nonce", "uri", "response", "opaque", "algorithm", "qop", "nc", "cnonce"]


# ---------------------------------------------------------------- independent RFC 2617 client
def H(algo, data):
    return (hashlib.md5 if algo == b"md5" else hashlib.sha1)(data).hexdigest().encode("ascii")


def stored_ha1(algo, user, realm, pw):
    """What a checker that keeps H(A1) instead of the password has on file (RFC 2617 3.2.2.2, unq(username) ":" unq(realm) ":" passwd)."""
    return H(algo, user + b":" + realm + b":" + pw)


def client_response(algo, user, realm, pw, method, uri, nonce, nc=None, cnonce=None, qop=None, sess=False):
    ha1 = stored_ha1(algo, user, realm, pw)
    if sess:
        # RFC 2617 3.2.2.2 (as clarified by its erratum: the hex form of the inner hash), session variant
        ha1 = H(algo, ha1 + b":" + nonce + b":" + cnonce)
    ha2 = H(algo, method + b":" + uri)
    if qop is not None:
        return H(algo, b":".join([ha1, nonce, nc, cnonce, qop, ha2]))
    return H(algo, b":".join([ha1, nonce, ha2]))


def render(fields, order, quote_all, sep):
    parts = []
    for k in order:
        if k not in fields:
            continue
        v = fields[k]
        if quote_all or k not in ("algorithm", "qop", "nc"):
            parts.append(k.encode("ascii") + b'="' + v + b'"')
        else:
            parts.append(k.encode("ascii") + b"=" + v)
    return sep.join(parts)


class Request:
    """Minimal IRequest stand-in for the twisted.web wrapper."""

    def __init__(self, method, host):
        self.method = method
        self._host = host

    def getClientAddress(self):
        return IPv4Address("TCP", self._host, 4321)


class Issued:
    def __init__(self, fidx, addr, nonce, opaque, when, realm):
        self.fidx, self.addr, self.nonce, self.opaque, self.when, self.realm = fidx, addr, nonce, opaque, when, realm


def excname(e):
    t = type(e)
    return t.__name__ if t.__module__ == "builtins" else "%s.%s" % (t.__module__, t.__name__)


def lenient_b64(s):
    try:
        return base64.b64decode(s)
    except Exception:
        return None


def plain(value, quoted, outer_blanks=False):
    """Does this parameter value read the same under any sensible parser?  Printable ASCII without quote, backslash or comma; not
    empty; blanks only inside a quoted value; a value sent without quotes must be a bare token.  Blanks at either end of a quoted
    value are part of the value by the grammar, but parsers are known to drop them: only with outer_blanks such a value counts as plain."""
    if not value or not value.strip(b" ") or any(b < 0x20 or b >= 0x7f or b in b'"\\,' for b in value):
        return False
    if value != value.strip() and not (outer_blanks and quoted):
        return False
    return quoted or all(b in b"ABCDEFGHIJKLMNOPQRSTUVWXYZabcdefghijklmnopqrstuvwxyz0123456789-" for b in value)


def run(sim):
    saved = credentials.secureRandom
    entropy = sim.draw_blob(8)
    handed = set()

    def tape_random(n, fallback=False):
        # The k-th value handed out in a history is a function of one tape entry and k: tape-driven, but how many values the code
        # under test asks for never shifts the rest of the tape.  Like the cryptographic source it stands in for, it never hands
        # out the same value twice within a history (12 random bytes do not coincide in reality; an exhausted or shrunk tape would
        # otherwise repeat itself).  So whatever two factories have in common is shared by the code under test, not by the stub.
        b = b""
        while len(b) < n:
            b += hashlib.sha256(entropy + b":%d:%d" % (len(handed), len(b))).digest()
        b = b[:n]
        while n and b in handed:
            b = ((int.from_bytes(b, "big") + 1) % (1 << (8 * n))).to_bytes(n, "big")
        handed.add(b)
        return b

    credentials.secureRandom = tape_random
    try:
        _run(sim)
    finally:
        credentials.secureRandom = saved


def _run(sim):
    algo = sim.draw_choice([b"md5", b"sha"], "algorithm")
    via_web = sim.draw_bool(0.3, "via_web")
    nfac = sim.draw_int(1, 3, "factories")
    nsteps = sim.draw_int(6, 24 * sim.depth, "steps")
    avoid = sim.draw_bool(0.15, "avoid_known") or bool(os.environ.get("VERIF_C48_AVOID_KNOWN"))
    start = sim.draw_int(0, 5000, "t0")
    sim.config = {"algorithm": algo.decode(), "via_web": via_web, "factories": nfac, "steps": nsteps, "avoid_known": avoid, "t0": start}
    # Clocks have sub-second resolution (time.time() does).  The implementation keeps challenge times in whole seconds, so its
    # notion of age can differ from the true age by less than one second: a response whose true age lies strictly between the
    # lifetime and the lifetime + 1 s gets no verdict (the scenario lets one more second pass first); everything else is decided
    # by the true age: <= lifetime must be accepted, >= lifetime + 1 must be refused.  All times are multiples of 1/8 s (exact floats).
    fractional = sim.draw_bool(0.4, "fractional_clock")
    sim.config["fractional_clock"] = fractional
    # A checker that stores H(username:realm:password) instead of the password asks the decoded credentials through checkHash.
    hash_checker = sim.draw_bool(HASH_CHECKER_P, "hash_checker")
    hash_on_wild = HASH_ENTRY_ON_WILD_P > 0 and sim.draw_bool(HASH_ENTRY_ON_WILD_P, "hash_entry_on_wild")
    strict_opaque = OPAQUE_TEXT_STRICT_P > 0 and sim.draw_bool(OPAQUE_TEXT_STRICT_P, "opaque_text_strict")
    strict_blanks = QUOTED_BLANKS_STRICT_P > 0 and sim.draw_bool(QUOTED_BLANKS_STRICT_P, "quoted_blanks_strict")
    sim.config.update({"hash_checker": hash_checker, "hash_entry_on_wild": hash_on_wild, "opaque_text_strict": strict_opaque,
                       "quoted_blanks_strict": strict_blanks})
    clock = sim.clock
    clock.advance(start +(sim.draw_int(0, 7, "t0_eighths") / 8.0 if fractional else 0))
    addrs = [a for a in ADDRS if a is not None] if via_web else ADDRS

    # Several independent factories live side by side (several sites / guarded resources of one process, for the same or for
    # different realms) and more are created while challenges of the earlier ones are outstanding (the factory that replaces
    # another after a reconfiguration).  Each has its own ledger entries: a challenge counts as issued only for the factory
    # that handed it out.
    facs, realms, born = [], [], []

    def new_factory():
        realm = sim.draw_choice(REALMS, "realm")
        if via_web:
            from twisted.web._auth import digest as webdigest
            w = webdigest.DigestCredentialFactory(algo, realm)
            w.digest._getTime = clock.seconds
            facs.append(w)
        else:
            f = credentials.DigestCredentialFactory(algo, realm)
            f._getTime = clock.seconds
            facs.append(f)
        realms.append(realm)
        born.append(len(issued))
        sim.event("factory", len(facs) - 1, realm)

    issued = []
    for i in range(nfac):
        new_factory()
    sim.config["realms"] = [r.decode() for r in realms]
    st = {"accepted": 0, "rejected": 0, "mutated": 0}

    def get_challenge(fidx, addr):
        f = facs[fidx]
        with sim.guard("challenge-raised"):
            ch = f.getChallenge(Request(b"GET", addr)) if via_web else f.getChallenge(addr)
        return ch

    def decode(fidx, header, method, addr):
        f = facs[fidx]
        if via_web:
            return f.decode(header, Request(method, addr if addr is not None else "0.0.0.0"))
        return f.decode(header, method, addr)

    def now_int():
        return int(clock.seconds())

    def context_valid(fidx, addr, nonce, opaque):
        """Is (nonce, opaque) an unaltered challenge issued by factory fidx to addr, still within its lifetime?"""
        for c in issued:
            if c.fidx == fidx and c.nonce == nonce and c.opaque == opaque and (c.addr or None) == (addr or None) \
                    and clock.seconds() - c.when <= LIFETIME:
                return True
        return False

    def equivalent_opaque(fidx, addr, nonce, opaque):
        """Same as context_valid, but comparing the opaque by content (digest part + leniently decoded key)."""
        parts = opaque.split(b"-")
        if len(parts) != 2:
            return False
        key = lenient_b64(parts[1])
        for c in issued:
            cp = c.opaque.split(b"-")
            if c.fidx == fidx and c.nonce == nonce and (c.addr or None) == (addr or None) and clock.seconds() - c.when <= LIFETIME \
                    and cp[0] == parts[0] and key is not None and key == base64.b64decode(cp[1]):
                return True
        return False

    def escaped(clause, e, detail):
        sig = "%s:%s:%s" % (ID, clause, excname(e))
        if sig in DEV_IGNORE:      # dev-time enumeration of all escaping exception types only
            sim.probe("ignored " + sig)
            return
        sim.fail(clause, excname(e), detail)

    def evaluate(kind, expect, fidx, header, method, addr, used_pw, right_pw, sent=None, wild=False, account=None):
        """expect: 'valid' | 'invalid' | 'free'.  sent: the parameters the header denotes (the client's own dict), when the header
        was rendered from plain values without raw edits and so denotes them unambiguously; None otherwise.  account: the user name
        of the account the client answers for (the hash-storing checker has that account's H(A1) values on file)."""
        sim.event("respond", kind, expect, fidx, addr or "-", header)
        creds = None
        try:
            creds = decode(fidx, header, method, addr)
        except error.LoginFailed as e:
            sim.event("decode", "LoginFailed")
        except Exception as e:
            escaped("decode-raised", e, "%s response made decode() raise %s: %s; header=%r" % (kind, excname(e), str(e)[:120], header))
        verdicts = {"password": {}, "hash": {}}
        if creds is not None:
            sim.check("decode-returns-credentials", isinstance(creds, credentials.DigestedCredentials), "type", "decode returned %r" % (creds,))
            # the same credentials object is asked about several candidate passwords, in tape-chosen order
            # (a checker may hold several secrets for a user; verdicts must not depend on earlier questions)
            cands = sorted({used_pw, right_pw, WRONG})
            questions = [("password", pw) for pw in cands]
            # ... and, in runs with a hash-storing checker, through the other entry point as well: such a checker looks the account up
            # by the decoded user name and hands checkHash the H(A1) it has on file (computed with the factory's algorithm when the
            # account was created); it has nothing to ask about a name it does not know.
            if hash_checker and (hash_on_wild or not wild):
                if account is not None and getattr(creds, "username", None) == account:
                    questions += [("hash", pw) for pw in cands]
                    sim.probe("hash_entry_asked")
                else:
                    sim.probe("hash_checker_does_not_know_the_decoded_user")
            for entry, pw in sim.draw_perm(questions):
                try:
                    if entry == "password":
                        verdicts[entry][pw] = bool(creds.checkPassword(pw))
                    else:
                        verdicts[entry][pw] = bool(creds.checkHash(stored_ha1(algo, account, realms[fidx], pw)))
                except Exception as e:
                    name = "checkPassword" if entry == "password" else "checkHash"
                    escaped(name + "-raised", e, "%s response made %s() raise %s: %s; header=%r" % (kind, name, excname(e), str(e)[:120], header))
                    verdicts[entry][pw] = False
            for entry in ("password", "hash"):
                if verdicts[entry]:
                    sim.event("checkPassword" if entry == "password" else "checkHash", *["%s=%s" % (k.decode(), v) for k, v in sorted(verdicts[entry].items())])
        if expect == "valid":
            st["accepted"] += 1
        elif expect == "invalid":
            st["rejected"] += 1
        else:
            st["mutated"] += 1
        judge("password", "", verdicts["password"], creds, kind, expect, fidx, header, method, addr, used_pw, sent)
        if verdicts["hash"]:
            judge("hash", "-checkHash", verdicts["hash"], creds, kind, expect, fidx, header, method, addr, used_pw, sent)

    def judge(entry, suffix, verdicts, creds, kind, expect, fidx, header, method, addr, used_pw, sent):
        """The accept/reject clauses for one entry point (checkPassword: clause names as they always were; checkHash: the same names
        with the suffix -checkHash).  For checkHash 'accepted for password p' reads 'accepted for the H(A1) on file for p'."""
        accepted = sorted(pw for pw, v in verdicts.items() if v)
        if expect == "valid":
            if entry == "password":
                sim.check("valid-accepted", creds is not None, kind, "a valid response was rejected by decode(); header=%r" % header)
            sim.check("valid-accepted" + suffix, verdicts.get(used_pw) is True, kind, "%s(password the client used) is False for a valid response; header=%r" % (entry, header))
            sim.check("only-used-password" + suffix, accepted == [used_pw], kind, "accepted passwords %r, client used %r" % (accepted, used_pw))
        elif expect == "invalid":
            sim.check("invalid-rejected" + suffix, not accepted, kind,
                      "a %s response was accepted for password(s) %r at t=%d; header=%r" % (kind, accepted, now_int(), header))
        elif accepted:
            sim.probe("mutated_but_accepted")
            # What the header denotes is judged from what the client SENT wherever that is unambiguous (plain values, no raw
            # edit): a parameter the client left out is absent (RFC 2617 3.2.1: no algorithm parameter = MD5; no qop = the
            # RFC 2069 form), whatever the decoded object's field table says by then.  Only for headers whose reading depends on
            # the parser (quotes, commas, control bytes, raw edits) the decoded fields are used.
            if sent is not None:
                f, username = sent, sent.get("username")
                sim.probe("acceptance_judged_by_sent_parameters")
            else:
                f, username = creds.fields, creds.username
                sim.probe("acceptance_judged_by_decoded_fields")
            # (strict runs only) a quoted value sent with blanks at either end: signatures of their own, see QUOTED_BLANKS_STRICT_P
            tag = "quoted-blanks-" if sent is not None and any(v != v.strip() for v in sent.values()) else ""
            nonce, opaque = f.get("nonce"), f.get("opaque")
            exact = nonce is not None and opaque is not None and context_valid(fidx, addr, nonce, opaque)
            ok = exact or (nonce is not None and opaque is not None and equivalent_opaque(fidx, addr, nonce, opaque))
            sim.check("accepted-is-justified" + suffix, ok, tag + "context",
                      "a mutated response was accepted although its nonce/opaque are not an issued, unexpired challenge for %s; header=%r" % (addr, header))
            if ok and not exact:
                # the opaque is not the issued text, but its base64 part decodes leniently to the same key (see OPAQUE_TEXT_STRICT_P)
                sim.probe("accepted_opaque_differs_textually_same_content")
                if strict_opaque:
                    sim.check("unaltered-opaque-text" + suffix, False, "lenient-base64",
                              "accepted although the opaque %r is not the text that was issued (it only decodes to the same key); header=%r" % (opaque, header))
            sim.check("accepted-is-justified" + suffix, len(accepted) == 1, "two-passwords", "accepted for passwords %r; header=%r" % (accepted, header))
            sim.check("accepted-is-justified" + suffix, accepted == [used_pw], "other-password", "accepted for %r, the client used %r; header=%r" % (accepted, used_pw, header))
            a = f.get("algorithm", b"md5").lower()
            want = None
            if username and f.get("uri") is not None and a in (b"md5", b"sha", b"md5-sess"):
                h = b"md5" if a == b"md5-sess" else a
                if entry == "hash" and h != algo:
                    # the H(A1) on file was made with the factory's algorithm, the header denotes another one: no client of this
                    # workload computes such a mixture and the statement says nothing about it - no verdict on the hash itself
                    pass
                elif f.get("qop") == b"auth" and f.get("nc") and f.get("cnonce"):
                    want = client_response(h, username, realms[fidx], accepted[0], method, f["uri"], nonce, f["nc"], f["cnonce"], b"auth", sess=(a == b"md5-sess"))
                elif a != b"md5-sess" and "qop" not in f and "nc" not in f and "cnonce" not in f:
                    want = client_response(h, username, realms[fidx], accepted[0], method, f["uri"], nonce)    # RFC 2069 form
                    sim.probe("accepted_legacy_form_judged")
            if want is not None:
                sim.check("accepted-is-justified" + suffix, f.get("response") == want, tag + "response-hash",
                          "accepted although response=%r is not the RFC 2617 digest %r for the algorithm the header denotes (%r); header=%r"
                          % (f.get("response"), want, a, header))

    def mutate_bytes(data, alphabet, label):
        """One byte-level edit (replace/insert/delete) at a tape-chosen position."""
        op = sim.draw_choice(["replace", "insert", "delete"], label)
        if not data:
            op = "insert"
        pos = sim.draw_int(0, len(data) - (0 if op == "insert" else 1), "pos")
        b = bytes([sim.draw_choice(list(alphabet), "byte")])
        if op == "replace":
            return data[:pos] + b + data[pos + 1:]
        if op == "insert":
            return data[:pos] + b + data[pos:]
        return data[:pos] + data[pos + 1:]

    def swap_char(data, pos, alphabet):
        """Replace data[pos] by a different character of alphabet."""
        cur = data[pos:pos + 1]
        choices = [bytes([c]) for c in alphabet if bytes([c]) != cur]
        return data[:pos] + sim.draw_choice(choices, "newchar") + data[pos + 1:]

    def settle(c):
        if LIFETIME < clock.seconds() - c.when < LIFETIME + 1:
            # the implementation's whole-second bookkeeping may or may not regard this challenge as expired: no verdict; let the doubt pass
            sim.probe("age_within_truncation_window_no_verdict")
            clock.advance(1)
            sim.sim_time += 1

    sent_log = []

    def repeat():
        """A request seen before arrives again, byte for byte (clients repeat their Authorization header; so do eavesdroppers), now
        or much later, from where it came or from elsewhere.  Its verdict is that of the statement at THIS moment: nothing a factory
        or a credentials object remembers of the first time may stand in for the checks."""
        r = sim.draw_choice(sent_log, "which")
        c, addr, expect = r["challenge"], r["addr"], r["expect"]
        settle(c)
        fresh = clock.seconds() - c.when <= LIFETIME
        sim.fault("request_repeated")
        if r["fresh"] and not fresh:
            # then within the lifetime, now beyond it
            sim.fault("request_repeated_after_expiry")
            expect = "free" if expect == "free" else "invalid"
        if sim.draw_bool(0.25, "from_elsewhere"):
            others = [a for a in addrs if (a or None) != (addr or None)]
            addr = sim.draw_choice(others, "addr")
            sim.fault("request_repeated_from_other_address")
            if expect == "valid":
                expect = "invalid"
            elif expect == "invalid" and (addr or None) == (c.addr or None) and fresh:
                expect = "free"     # e.g. an other-address replay brought back to the address the challenge was issued to
        if expect == "valid":
            sim.probe("repeated_request_still_valid")
        evaluate("repeated-" + r["kind"], expect, r["fidx"], r["header"], r["method"], addr, r["used_pw"], r["right_pw"], r["sent"],
                 wild=r["wild"], account=r["account"])

    def respond():
        c = sim.draw_choice(issued, "challenge")
        settle(c)
        user, right_pw = sim.draw_choice(USERS, "user")
        method = sim.draw_choice([b"GET", b"POST"], "method")
        uri = sim.draw_choice([b"/", b"/a/b?c=d", b"/write/"], "uri")
        legacy = sim.draw_bool(0.15, "legacy")
        nc = b"%08x" % sim.draw_int(1, 3, "nc")
        cnonce = sim.draw_bytes(sim.draw_int(1, 8, "cnlen"), HEX)
        order = sim.draw_perm(ORDER) if sim.draw_bool(0.5, "permute") else list(ORDER)
        quote_all = sim.draw_bool(0.3, "quote_all")
        sep = sim.draw_choice([b", ", b",", b",\r\n  "], "sep")
        tame = [("honest", 6), ("md5-sess", 2 if (algo == b"md5" and not legacy) else 0), ("no-algorithm", 2), ("wrong-password", 2), ("other-address", 2), ("expired-check", 0), ("nonce-post", 1), ("nonce-pre", 1),
                ("opaque-digest", 1), ("opaque-key", 1), ("opaque-forged-time", 1), ("opaque-forged-addr", 1), ("other-factory", 2 if len(facs) > 1 else 0),
                ("opaque-shape", 1), ("drop-tame", 1), ("value-tame", 2)]
        wild = [("opaque-truncate", 2), ("opaque-garbage", 1), ("drop-any", 2), ("value-wild", 2), ("raw-wild", 2), ("algorithm", 1), ("qop", 1), ("truncate-header", 1)]
        kind = sim.draw_weighted(tame + ([] if avoid else wild), "class")

        realm = c.realm      # the client answers with the realm named in the challenge it got

        def build(pw, nonce, opaque, algorithm=algo, hashed_with=algo):
            f = {"username": user, "realm": realm, "nonce": nonce, "uri": uri, "opaque": opaque, "algorithm": algorithm}
            if legacy:
                f["response"] = client_response(hashed_with, user, realm, pw, method, uri, nonce)
            else:
                f["qop"], f["nc"], f["cnonce"] = b"auth", nc, cnonce
                f["response"] = client_response(hashed_with, user, realm, pw, method, uri, nonce, nc, cnonce, b"auth")
            return f

        fidx, addr, used_pw = c.fidx, c.addr, right_pw
        fresh = clock.seconds() - c.when <= LIFETIME
        fields = build(right_pw, c.nonce, c.opaque)
        expect = "valid" if fresh else "invalid"
        if not fresh:
            sim.probe("expired_response")
        age = clock.seconds() - c.when
        if age in (LIFETIME - 1, LIFETIME, LIFETIME + 1):
            sim.probe("age_at_boundary_%+d" % (age - LIFETIME))
        header = None
        if kind == "honest":
            if sim.draw_bool(0.2, "upper_algo"):
                fields["algorithm"] = fields["algorithm"].upper()   # the algorithm token is case-insensitive
        elif kind == "md5-sess":
            # a session-variant response (accepted by the implementation for an md5 challenge): acceptance is not required,
            # but if accepted it must be for the password the client used, whatever else the object was asked before
            if sim.draw_bool(0.3, "sess_wrong"):
                used_pw = WRONG
            fields["algorithm"] = sim.draw_choice([b"md5-sess", b"MD5-sess"], "sesscase")
            fields["response"] = client_response(b"md5", user, realm, used_pw, method, uri, c.nonce, nc, cnonce, b"auth", sess=True)
            expect = "free" if fresh else "invalid"
            sim.probe("md5_sess_response")
        elif kind == "no-algorithm":
            # A client that leaves the optional algorithm parameter out (RFC 2069 clients always do).  RFC 2617 3.2.1: "If this is
            # not present it is assumed to be MD5" - such a header denotes an MD5 response whatever the challenge offered.  The
            # client really hashed with MD5 (what its header says), or with the algorithm of the challenge (and forgot to say so).
            # MD5 answer to an MD5 challenge: an ordinary valid response.  MD5 answer to a challenge for another algorithm:
            # acceptance is not demanded.  In no case may an acceptance rest on another hash than the one the header denotes.
            hashed_with = sim.draw_choice([b"md5", algo], "hashed_with")
            if sim.draw_bool(0.25, "noalg_wrong"):
                used_pw = WRONG
            fields = build(used_pw, c.nonce, c.opaque, hashed_with=hashed_with)
            del fields["algorithm"]
            if fresh and not (hashed_with == b"md5" and algo == b"md5"):
                expect = "free"
            sim.probe("no_algorithm_parameter_%s_response_to_%s_challenge" % (hashed_with.decode(), algo.decode()))
        elif kind == "wrong-password":
            used_pw = WRONG if sim.draw_bool(0.5, "which_wrong") else right_pw + b"x"
            fields = build(used_pw, c.nonce, c.opaque)
        elif kind == "other-address":
            others = [a for a in addrs if (a or None) != (c.addr or None)]
            addr = sim.draw_choice(others, "addr")
            expect = "invalid"
        elif kind == "other-factory":
            # an unaltered, fresh, honest answer - presented to a factory that never issued this challenge
            fidx = sim.draw_choice([i for i in range(len(facs)) if i != c.fidx], "target")
            expect = "invalid"
            sim.fault("response_presented_to_other_factory")
            sim.probe("other_factory_same_realm" if realms[fidx] == realms[c.fidx] else "other_factory_other_realm")
            if born[fidx] > issued.index(c):
                sim.probe("other_factory_created_after_the_challenge")
        elif kind in ("nonce-post", "nonce-pre"):
            n2 = swap_char(c.nonce, sim.draw_int(0, len(c.nonce) - 1, "pos"), HEX)
            if kind == "nonce-pre":
                fields = build(right_pw, n2, c.opaque)
            else:
                fields["nonce"] = n2
            expect = "invalid"
        elif kind == "opaque-digest":
            dg, ek = c.opaque.split(b"-")
            dg = swap_char(dg, sim.draw_int(0, len(dg) - 1, "pos"), HEX)
            fields["opaque"] = dg + b"-" + ek
            expect = "invalid"
        elif kind == "opaque-key":
            dg, ek = c.opaque.split(b"-")
            body = ek.rstrip(b"=")
            ek2 = swap_char(ek, sim.draw_int(0, len(body) - 1, "pos"), B64)
            fields["opaque"] = dg + b"-" + ek2
            same = lenient_b64(ek2) == base64.b64decode(ek)
            expect = "free" if same else "invalid"
        elif kind in ("opaque-forged-time", "opaque-forged-addr"):
            dg, ek = c.opaque.split(b"-")
            n0, a0, t0 = base64.b64decode(ek).split(b",")
            if kind == "opaque-forged-time":
                t0 = b"%d" % (int(t0) + sim.draw_choice([1, LIFETIME, 10 * LIFETIME, -1], "shift"))
            else:
                others = [a for a in addrs if (a or None) != (c.addr or None)]
                addr = sim.draw_choice(others, "addr")
                a0 = (addr or "").encode("ascii")
            fields["opaque"] = dg + b"-" + base64.b64encode(b",".join([n0, a0, t0]))
            expect = "invalid"
        elif kind == "opaque-shape":
            dg, ek = c.opaque.split(b"-")
            fields["opaque"] = sim.draw_choice([dg + ek, dg + b"-" + ek + b"-" + ek, dg + b"-", b"-" + ek, ek + b"-" + dg,
                                                dg + b"-" + base64.b64encode(b"no commas here"), dg + b"-" + base64.b64encode(b"a,b,c,d"),
                                                dg + b"-" + base64.b64encode(c.nonce + b"," + (c.addr or "").encode() + b",12x")], "shape")
            expect = "invalid"
        elif kind == "drop-tame":
            fields.pop(sim.draw_choice(["response", "realm", "algorithm", "username", "nonce", "opaque"], "field"), None)
            expect = "free"
        elif kind == "value-tame":
            k = sim.draw_choice(["username", "realm", "response", "nc", "cnonce", "uri", "nonce"], "field")
            if k in fields:
                v = mutate_bytes(fields[k], MUT_BYTES_TAME, "edit")
                if k == "uri" and not v:
                    v = b"/"
                fields[k] = v
            expect = "free"
        elif kind == "opaque-truncate":
            n = sim.draw_int(1, 4, "cut")
            fields["opaque"] = c.opaque[:-n]
            sim.fault("opaque_truncated")
            expect = "invalid" if lenient_b64(fields["opaque"].split(b"-")[1]) != base64.b64decode(c.opaque.split(b"-")[1]) else "free"
        elif kind == "opaque-garbage":
            dg, ek = c.opaque.split(b"-")
            fields["opaque"] = dg + b"-" + mutate_bytes(ek, b"!*=\xff A", "edit")
            expect = "free"
        elif kind == "drop-any":
            fields.pop(sim.draw_choice(ORDER, "field"), None)
            expect = "free"
        elif kind == "value-wild":
            k = sim.draw_choice(ORDER, "field")
            if k in fields:
                fields[k] = mutate_bytes(fields[k], MUT_BYTES_WILD, "edit")
            expect = "free"
        elif kind == "algorithm":
            fields["algorithm"] = sim.draw_choice([b"md6", b"MD5-sess", b"md5-sess", b"", b"sha-256", b"sha" if algo == b"md5" else b"md5"], "algo")
            expect = "free"
        elif kind == "qop":
            fields["qop"] = sim.draw_choice([b"auth-int", b"AUTH", b"", b"auth,auth-int"], "qop")
            expect = "free"
        if kind in ("drop-tame", "value-tame", "drop-any", "value-wild", "algorithm", "qop", "opaque-garbage"):
            sim.fault("field_mutation")
        header = render(fields, order, quote_all, sep)
        if kind == "raw-wild":
            header = mutate_bytes(header, MUT_BYTES_WILD, "edit")
            sim.fault("raw_mutation")
            expect = "free"
        elif kind == "truncate-header":
            header = header[:sim.draw_int(0, len(header) - 1, "cut")]
            sim.fault("raw_mutation")
            expect = "free"
        if expect == "valid" and used_pw != right_pw:
            pass  # still a valid context: only the password the client used may be accepted
        sent = None
        if kind not in ("raw-wild", "truncate-header") and all(plain(v, quote_all or k not in ("algorithm", "qop", "nc")) for k, v in fields.items()):
            sent = dict(fields)
        elif kind not in ("raw-wild", "truncate-header") \
                and all(plain(v, quote_all or k not in ("algorithm", "qop", "nc"), outer_blanks=True) for k, v in fields.items()):
            # otherwise plain, but a quoted value begins or ends with a blank: by the grammar the blank belongs to the value; the
            # implementation drops it.  Judged as sent in strict runs only (QUOTED_BLANKS_STRICT_P), by the decoded fields otherwise.
            sim.probe("quoted_value_with_outer_blanks_sent")
            if strict_blanks:
                sent = dict(fields)
        is_wild = kind in [k for k, _ in wild]
        evaluate(kind, expect, fidx, header, method, addr, used_pw, right_pw, sent, wild=is_wild, account=user)
        sent_log.append({"kind": kind, "expect": expect, "fresh": fresh, "challenge": c, "fidx": fidx, "header": header, "method": method,
                         "addr": addr, "used_pw": used_pw, "right_pw": right_pw, "sent": sent, "wild": is_wild, "account": user})
        del sent_log[:-REPEAT_LOG]

    for _ in range(nsteps):
        sim.step(200 * sim.depth)
        ops = [("challenge", 4 if len(issued) < 10 else 0), ("respond", 12 if issued else 0), ("advance", 2), ("to-boundary", 2 if issued else 0),
               ("new-factory", 1 if (issued and len(facs) < MAX_FACTORIES) else 0), ("repeat", 3 if sent_log else 0)]
        op = sim.draw_weighted(ops, "op")
        if op == "challenge":
            fidx = sim.draw_int(0, len(facs) - 1, "factory")
            addr = sim.draw_choice(addrs, "addr")
            ch = get_challenge(fidx, addr)
            sim.check("challenge-shape", isinstance(ch.get("nonce"), bytes) and isinstance(ch.get("opaque"), bytes) and ch.get("opaque").count(b"-") == 1
                      and isinstance(ch.get("realm"), bytes),
                      "fields", "challenge %r" % (ch,))
            issued.append(Issued(fidx, addr, ch["nonce"], ch["opaque"], clock.seconds(), ch["realm"]))
            sim.event("challenge", fidx, addr or "-", now_int(), ch["nonce"], ch["opaque"])
        elif op == "new-factory":
            new_factory()
            sim.probe("factory_created_mid_history")
        elif op == "advance":
            dt = sim.draw_choice([1, 10, 60, 450, 2, 899, 300, 900, 30, 901, 1800], "dt")
            if fractional:
                dt += sim.draw_int(0, 7, "dt_eighths") / 8.0
                sim.probe("fractional_time")
            sim.event("advance", dt)
            if sim.draw_bool(0.5, "jump"):
                clock.jump(dt)
            else:
                clock.advance(dt)
            sim.sim_time += dt
        elif op == "to-boundary":
            c = sim.draw_choice(issued, "challenge")
            target = LIFETIME + sim.draw_choice([0, -1, 1], "edge")
            age = clock.seconds() - c.when
            if age < target:
                sim.event("advance-to-age", target)
                clock.advance(target - age)
                sim.sim_time += target - age
                sim.fault("clock_to_lifetime_boundary")
        elif op == "repeat":
            repeat()
        else:
            respond()
        if sim.violation is not None:
            raise sim.violation
        sim.state((min(len(issued), 6), min(st["accepted"], 3), min(st["rejected"], 3), min(st["mutated"], 3)))
    sim.nontrivial = st["accepted"] >= 1 and (st["rejected"] + st["mutated"]) >= 2


MUTANTS = [
    '(all run with VERIF_C48_AVOID_KNOWN=1 so that the four known escapes do not end the runs first)',
    "credentials.py _verifyOpaque: '> CHALLENGE_LIFETIME_SECS' -> '>=': CAUGHT valid-accepted (age == lifetime)",
    'credentials.py _verifyOpaque: client address comparison removed: CAUGHT invalid-rejected:other-address',
    'credentials.py _verifyOpaque: nonce comparison removed: CAUGHT invalid-rejected:nonce-pre',
    'credentials.py _verifyOpaque: opaque digest comparison removed: CAUGHT invalid-rejected:opaque-forged-time / other-factory',
    'credentials.py _verifyOpaque: age test disabled: CAUGHT invalid-rejected:honest (expired)',
    "credentials.py _verifyOpaque: 'except ValueError' around int() -> 'except KeyError': CAUGHT decode-raised:ValueError",
    'credentials.py opaque digest computed without the private key (both places): CAUGHT invalid-rejected:other-factory',
    '_digest.py calcResponse: nonce count left out of the hash: CAUGHT valid-accepted',
    "credentials.py _verifyOpaque: 'len(opaqueParts) != 2' -> '< 2': CAUGHT invalid-rejected:opaque-shape",
    "credentials.py __init__: opaque key drawn once per process (class attribute) instead of per factory: CAUGHT invalid-rejected:other-factory "
    "(before: the other-factory class was only enabled when the two factories' privateKey attributes differed, i.e. the oracle trusted the implementation's keys)",
    "credentials.py __init__: 'self.privateKey = secureRandom(12)' -> key derived from the realm (md5(authenticationRealm)): CAUGHT invalid-rejected:other-factory",
    "credentials.py __init__: authenticationRealm stored on the class (the last factory's realm wins): CAUGHT valid-accepted:honest / accepted-is-justified:response-hash",
    "round 5: credentials.py decode: auth.setdefault('algorithm', self.algorithm) (omitted algorithm read as the factory's): CAUGHT accepted-is-justified:response-hash "
    "(sha factory, sha-hashed response without algorithm parameter accepted; before, the oracle read the algorithm from the decoded field table, which the change itself fills in, "
    "and no honest client left the parameter out)",
    "credentials.py checkPassword: default algorithm b'md5' -> b'sha': CAUGHT valid-accepted:no-algorithm",
    "credentials.py decode: credentials always built with algorithm=self.algorithm (client's parameter ignored): CAUGHT accepted-is-justified:response-hash",
    "round 6: credentials.py decode: verified credentials remembered per (header, method, host) and handed out again without _verifyOpaque: CAUGHT in quick "
    "invalid-rejected:repeated-honest (before: thorough only - no request was ever presented twice; the repeat family was added)",
    "round 6: credentials.py checkHash: 'calcHA1(algo, None, None, None, nonce, cnonce, preHA1=digestHash)' -> H(A1) cached on the object after the first call "
    "(self._ha1 = ...; reused by later calls): CAUGHT valid-accepted-checkHash / only-used-password-checkHash / accepted-is-justified-checkHash:two-passwords",
    "round 6: credentials.py checkHash: 'return expected == response' -> 'return True': CAUGHT only-used-password-checkHash",
    "round 6: credentials.py checkHash: algorithm forced to the default (fields.get('algorithm') ignored): CAUGHT valid-accepted-checkHash (sha factories)",
    "round 6, TREE AS FIRST EXAMINED (80b08da, 8142fa3, 953247d reverted), knobs at 1.0 (their value now): HASH_ENTRY_ON_WILD_P -> checkHash-raised:KeyError (algorithm=md6), checkHash-raised:TypeError (uri dropped / "
    "qop=auth-int / md5-sess without cnonce); OPAQUE_TEXT_STRICT_P -> unaltered-opaque-text:lenient-base64 (opaque 'dg-!<b64>' accepted); QUOTED_BLANKS_STRICT_P -> "
    "accepted-is-justified:quoted-blanks-context (nonce=\" <issued>\") / quoted-blanks-response-hash (username=\" alice\").  Genuine defects, REPAIRED in /repo 80b08da, 8142fa3, 953247d.  With the repairs (guards of "
    "checkPassword copied into checkHash; b64encode(key) != opaqueParts[1] -> LoginFailed; only bare values stripped in decode) the check PASSES with all three knobs at 1.0 "
    "and the 129 tests of test_digestauth/test_httpauth/test_cred/test_sip pass",
    'repair of the four escapes listed first in KNOWN, in /repo 3cc82cb (catch ValueError from b64decode, UnicodeError from nativeString -> LoginFailed; checkPassword returns False for unknown algorithm / missing uri / auth-int / md5-sess without cnonce): full check PASSES without the avoid knob',
]
