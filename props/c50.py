"""C50 — filesystem lock is mutually exclusive even when breaking stale locks.

Engine E5 (baton threads) + an in-memory link table.  Each simulated *process*
is a sim-thread with its own pid running the real FilesystemLock.lock()/unlock();
the module-level symlink/readlink/rmlink/kill and os.getpid are rebound to the
simulator, every such call is a hand-over point and executes atomically against
the link table (symlink = atomic create-or-EEXIST, the property the class relies
on).  A process table decides kill(pid, 0).  The tape picks which process runs
next at every call, whether a holder dies inside its critical section (leaving a
stale link) and whether a stale link exists initially.

Every process keeps ONE lock object for all its attempts and rounds (that is how
callers such as DeferredFilesystemLock use the class), so whatever the object
remembers from earlier attempts is part of the state under test.  Liveness is
checked in three bounded forms: (1) in the run, no waiter may fail STALE_BUDGET
times in a row against a stale link that nobody touched during those attempts;
(2) a waiter that never gives up (plain polling, or deferUntilLocked() on its own
simulated clock) must hold the lock within LONE_BUDGET attempts once every other
process has finished or died; (3) after the run each surviving process returns
alone with its used object, then a fresh contender with a fresh object.

Optional families (one tape draw, 0 = none): a holder forks and the child first
calls unlock() on the inherited object and may then contend with it; a few
intercepted calls fail with a transient OS error (EIO/EACCES, kill: EPERM)
instead of being carried out - inside lock() the attempt then ends with that
error and counts for nothing, inside the holder's unlock() the holder still
holds and calls unlock() again until a call that met no injected error either
releases or is a violation; a holder may release through another lock object
for the same path, or take the lock through a handle it drops at once.  Family
"procs": the process table knows more than running/gone - a process that ends
(as holder, or by exiting after its last round) may stay unreaped for a few
kill() probes (kill succeeds, nothing says that lock can be broken yet; the
liveness budgets start once it is reaped), a RUNNING process may have ended its
initial thread, and a simulated /proc (served to the module through its open()
and os.path/os.listdir) shows both the way Linux does (leader state Z).  Family
"names": the one lock has several spellings (bytes, '..', a directory symlink,
relative to the working directory) resolved by the link table; every handle a
process opens draws its spelling, and processes ask isLocked() while holding and
while not holding.  Every run re-executes the lockfile module first and keeps
the cycle collector off until its end, so neither module-level state nor a
handle's finaliser can act inside another run or at a moment no tape decides.  The trace names link contents abstractly (a pid of the
simulation or one fixed word), so a run is replayable whatever identity the
code under test writes.
"""
import builtins
import copy
import errno
import gc
import importlib
import io
import os as _real_os
import posixpath

from twisted.internet import defer
from twisted.python import lockfile

from detsim import threads as T
from detsim.clock import SimClock

ID = "C50"
ENGINE = "threads"
LEVEL = "exploration"
TECHNIQUE = "deterministic simulation: real lock()/unlock() on baton-passing threads, tape-chosen interleaving at every intercepted filesystem call, process death as fault"
QUICK_RUNS = 4000
BATCH = 60
COMPONENTS = {"real": ["twisted.python.lockfile.FilesystemLock.lock/unlock", "twisted.python.lockfile.isLocked",
                       "twisted.internet.defer.DeferredFilesystemLock.deferUntilLocked (polling waiter, no timeout)"],
              "stub": ["symlink/readlink/remove/kill/getpid (in-memory link + process tables, atomic per call; optional injected EIO/EACCES/EPERM)", "process scheduling (baton threads, tape-chosen)",
                       "the module's view of the OS beyond those calls: open() of /proc/<pid>/{stat,status,comm,cmdline,task/..} and os.path.exists/lexists/isdir/islink/abspath/realpath/samefile, os.listdir, "
                       "os.getcwd, os.kill/readlink/symlink/remove answer from the simulated process table, directory tree (one directory symlink, cwd /locks) and link table",
                       "each polling waiter's IReactorTime (detsim SimClock, advanced one interval per poll)"]}
RULE = ("run = 2..4 simulated processes each doing 1..3 rounds of lock -> critical section -> unlock on one path, interleaved at every intercepted call; "
        "optional initial stale link, optional death of a holder inside its critical section, optional fork of a holder whose child calls unlock() on the inherited lock object "
        "and then, in half of the cases, contends for the lock with that object; optional transient OS errors (1..3 per run, each intercepted call of a lock() or unlock() fails with p=0.2 "
        "with EIO/EACCES, kill with EPERM, instead of being carried out): a lock() ended by one is an attempt without answer, a holder whose unlock() met one still holds and calls unlock() "
        "again (other processes run in between); optionally a holder releases through another FilesystemLock object for the same path, and a bounded waiter may take the lock through a handle "
        "it drops as soon as lock() answered; family 'procs': a process that ends (death as holder, exit after its last round, end of a forked child) stays unreaped with p=0.5 for 1..3 kill() probes "
        "(kill succeeds on it), a running process has ended its initial thread with p=0.4, and the simulated /proc shows leader state Z for both, S/R otherwise; "
        "family 'names': every handle (the process's own object, the other object it releases through, isLocked probes, the late contender) draws one of 6 spellings of the lock's path "
        "(str/bytes, 'sub/..', through a directory symlink, relative to the cwd), holders ask isLocked() inside the critical section (p=0.4), non-holders before a round (p=0.3); "
        "each process reuses one lock object for every attempt; in runs with holder deaths each process draws how it waits: bounded (6 attempts per round), persistent (lock() until it succeeds) "
        "or deferred (DeferredFilesystemLock.deferUntilLocked() polling once per interval on its own simulated clock), so that an owner can die between two attempts of the same waiter; "
        "after the run the survivors come back alone one by one (tape-chosen order) with their used objects, then a fresh contender; "
        "non-trivial = at least two processes contended (an EEXIST was seen) and the tape switched processes between two calls of one lock()")
ASSUMPTIONS = ["symlink() is atomic create-or-EEXIST; readlink/remove/kill are atomic individually", "pids are not reused during a run",
               "'eventually' is read in bounded form: 3 attempts in a row of one waiter against a stale link nobody else touched, 3 attempts of a waiter that is the only process left, "
               "1 attempt of a process that comes back alone after the run; a run that uses up its 20000-step budget gives no verdict (the statement does not bound contention)",
               "a process that dies does so inside its critical section (never in the middle of lock()/unlock()); a process that exits does so after its last unlock()",
               "a dead process that has not been reaped answers kill(pid, 0) like a running one and is reaped after at most 3 such probes (and before the survivors return after the run): "
               "'eventually' presupposes that the OS eventually reports the owner as gone; while it does not, lock() may answer either way and no liveness budget runs. "
               "A link that names the pid of a RUNNING process (pid reuse, in particular a leftover naming the contender's own pid) is outside the statement: no contender can tell it from a held lock",
               "a running process whose initial thread has ended is a running process (kill succeeds, /proc/<pid>/stat shows Z for the thread-group leader, /proc/<pid>/task/<other tid>/stat shows S)",
               "the lock is ONE file however it is spelled; isLocked() answering False means its lock() succeeded: that may not happen while ANOTHER process holds (what a probe does to the asking "
               "process's own tenure is judged by that holder's next steps: nobody else may acquire, its unlock() must succeed); no OS error is injected into isLocked() (nobody could retry its unlock)",
               "an injected OS error replaces the call (nothing is created or removed by a call that fails); lock() calls made from a timer (deferUntilLocked) are never faulted - "
               "what the reactor does with an exception from a timed call is outside the statement; lock attempts ended by an injected error count for no liveness budget",
               "'a holder can always release it' is read per process, as unlock() documents it (ValueError only for a lock 'not owned by this process'): the holder's unlock() call that meets "
               "no injected error must release, whatever earlier unlock() calls of the same holder met and whichever lock object for the path it is called on",
               "all simulated processes share the one imported lockfile module (as processes forked from a common parent after the import do)"]

NAME = "/locks/the.lock"
CWD = "/locks"                       # every simulated process runs with this working directory
DIRS = {"/", "/locks", "/locks/sub", "/proc"}
DIRLINKS = {"/var-locks": "/locks"}  # a directory reachable by a second name (as /var/run -> /run)
# the spellings under which a process may name the ONE lock (index 0 = the canonical name, the simplest choice)
SPELLINGS = [NAME, b"/locks/the.lock", "/locks/sub/../the.lock", "/var-locks/the.lock", "the.lock", b"/var-locks/./the.lock"]
COMMS = ["python3", "twistd", "my worker", "a) S (b"]  # command names as /proc shows them (spaces and parentheses are legal)


def canon(filename):
    """The file a spelling names in the simulated tree: relative names start at CWD, '.' and '..' are walked physically,
    a directory symlink is followed where it is met."""
    p = _real_os.fsdecode(filename)
    if not p.startswith("/"):
        p = CWD + "/" + p
    parts = []
    for seg in p.split("/"):
        if seg in ("", "."):
            continue
        if seg == "..":
            if parts:
                parts.pop()
            continue
        parts.append(seg)
        here = "/" + "/".join(parts)
        if here in DIRLINKS:
            parts = [x for x in DIRLINKS[here].split("/") if x]
    return "/" + "/".join(parts)


class World:
    def __init__(self, sim, sched):
        self.sim = sim
        self.sched = sched
        self.links = {}
        self.alive = set()
        self.pid_of = {}       # thread name -> pid
        self.in_lock = set()   # pids currently inside lock()
        self.race = False      # a breaker removed a link owned by a live process
        self.eexist = 0
        self.broke_stale = 0
        self.esrch = {}        # pid -> the dead pid its latest kill(0) reported ESRCH for
        self.foreign_unlock = None  # (pid, owner): an unlock() removed a live owner's link
        self.link_gen = 0      # bumped whenever the link is created or removed
        self.saw_alive = {}    # pid -> the owner its latest kill(0) reported as running (lock() then returned False)
        self.known = {99}      # every pid the simulation has ever handed out (plus the initial stale owner)
        # transient OS errors (family "oserr"): while oserr_left > 0 an intercepted call may fail with EIO/EACCES (kill: EPERM)
        # INSTEAD of being carried out; injected[pid] counts the errors injected into pid's current lock()/unlock() call
        self.oserr_left = 0
        self.oserr_exempt = set()  # pids whose lock() calls are never faulted (waiters polling from a timer)
        self.injected = {}
        # process table beyond running/gone (family "procs"): zombies[pid] = number of kill(pid, 0) probes still answered
        # with success before the parent reaps the dead process (a dead, unreaped process answers kill like a live one);
        # mtx = RUNNING processes whose initial thread has ended (the rest of their threads go on): /proc shows the
        # thread-group leader of such a process as Z although the process lives; comm[pid] = its command name in /proc
        self.zombies = {}
        self.mtx = set()
        self.comm = {}
        self.holders = []          # the scenario's list of current holders (read at every successful symlink)
        self.created_over = {}     # pid -> the OTHER processes that held the lock when pid's latest symlink() succeeded
        self.probing = set()       # pids inside isLocked(): never faulted (its internal unlock has nobody to retry it)

    def pname(self, v):
        """Abstract name of whatever a link names: a pid of the simulation, or a fixed word for anything else (a value
        the code under test got from outside the interposed calls must not leak into the trace)."""
        try:
            v = int(v)
        except (TypeError, ValueError):
            return "not-a-pid"
        return str(v) if v in self.known else "pid-unknown-to-the-simulation"

    def maybe_fault(self, op):
        if self.oserr_left <= 0:
            return
        me = self.pid()
        inside = "lock" if me in self.in_lock else "unlock"
        if (inside == "lock" and me in self.oserr_exempt) or me in self.probing:
            return
        if not self.sim.draw_bool(0.2, "oserr"):
            return
        self.oserr_left -= 1
        en = errno.EPERM if op == "kill" else self.sim.draw_choice([errno.EIO, errno.EACCES], "errno")
        self.injected[me] = self.injected.get(me, 0) + 1
        self.sim.fault("oserror_%s_in_%s" % (op, inside))
        self.sim.event(me, op, "INJECTED", errno.errorcode[en])
        raise OSError(en, "injected " + errno.errorcode[en])

    def stale_owner(self):
        """The dead AND REAPED pid the link names (kill reports ESRCH for it), or None (no link / owner running / owner
        dead but not reaped yet: nobody can tell that one from a running process with kill)."""
        v = self.links.get(NAME)
        return int(v) if v is not None and int(v) not in self.alive and int(v) not in self.zombies else None

    def unreaped_owner(self):
        v = self.links.get(NAME)
        return v is not None and int(v) in self.zombies

    def leaves(self, pid, unreaped_for=0):
        """Process pid is no longer running; unreaped_for > 0: it stays in the process table that many kill() probes."""
        self.alive.discard(pid)
        self.mtx.discard(pid)
        if unreaped_for > 0:
            self.zombies[pid] = unreaped_for
            self.sim.fault("process_ended_unreaped")

    def reap(self, pid):
        if self.zombies.pop(pid, None) is not None:
            self.sim.probe("unreaped_process_reaped")
            self.sim.event("REAPED", self.pname(pid))

    # the simulated /proc (whatever the code under test asks the OS about a pid must be about the simulated process table)
    def procfs(self, path):
        """bytes of the /proc file `path` (canonical), FileNotFoundError for what does not exist."""
        seg = path.split("/")[2:]
        if seg and seg[0] == "self":
            seg[0] = str(self.pid())
        try:
            pid = int(seg[0])
        except (IndexError, ValueError):
            raise FileNotFoundError(errno.ENOENT, "No such file or directory", path)
        if pid not in self.alive and pid not in self.zombies:
            self.esrch[self.pid()] = pid  # the caller has been told that pid is gone, as by kill's ESRCH
            raise FileNotFoundError(errno.ENOENT, "No such file or directory", path)
        comm = self.comm.get(pid, "python3")
        dead = pid in self.zombies
        leader = "Z" if dead or pid in self.mtx else ("R" if pid == self.pid() else "S")
        nthreads = 2 if pid in self.mtx else 1
        rest = seg[1:]
        tids = [pid] + ([pid + 1000] if pid in self.mtx else [])
        if len(rest) >= 2 and rest[0] == "task":
            # per-thread view: /proc/<pid>/task/<tid>/<file>
            try:
                tid = int(rest[1])
            except ValueError:
                tid = None
            if tid not in tids:
                raise FileNotFoundError(errno.ENOENT, "No such file or directory", path)
            if tid != pid:
                leader = "S"
            rest = rest[2:]
        self.sim.event(self.pid(), "procfs", "/".join(rest) or "dir", self.pname(pid), leader)
        if rest == ["stat"]:
            f = [0] * 49
            f[0], f[4], f[16] = 1, -1, nthreads  # ppid ... num_threads (fields 4.. of proc(5))
            return ("%d (%s) %s %s\n" % (pid, comm, leader, " ".join(map(str, f)))).encode()
        if rest == ["status"]:
            word = {"Z": "zombie", "R": "running", "S": "sleeping"}[leader]
            return ("Name:\t%s\nState:\t%s (%s)\nTgid:\t%d\nPid:\t%d\nPPid:\t1\nThreads:\t%d\n" % (comm, leader, word, pid, pid, nthreads)).encode()
        if rest == ["comm"]:
            return (comm + "\n").encode()
        if rest == ["cmdline"]:
            return b"" if dead else comm.encode() + b"\0"
        if rest in ([], ["task"]):
            raise IsADirectoryError(errno.EISDIR, "Is a directory", path)
        raise FileNotFoundError(errno.ENOENT, "No such file or directory", path)

    def open(self, file, mode="r", *a, **kw):
        if isinstance(file, (str, bytes)) and canon(file).startswith("/proc/"):
            self.sched.point("procfs")
            data = self.procfs(canon(file))
            return io.BytesIO(data) if "b" in mode else io.StringIO(data.decode())
        return builtins.open(file, mode, *a, **kw)

    def exists(self, path, follow=True):
        c = canon(path)
        if c in self.links:
            return not follow  # the lock link points at a pid, i.e. nowhere
        if c in DIRS or (not follow and posixpath.normpath(posixpath.join(CWD, _real_os.fsdecode(path))) in DIRLINKS):
            return True
        if c.startswith("/proc/"):
            try:
                self.procfs(c)
            except IsADirectoryError:
                return True
            except OSError:
                return False
            return True
        return False

    def pid(self):
        t = self.sched.me()
        return self.pid_of[t.name] if t is not None else 1

    # interposed module-level functions
    def symlink(self, value, filename):
        self.sched.point("symlink")
        self.maybe_fault("symlink")
        filename = canon(filename)
        if filename in self.links:
            self.eexist += 1
            self.sim.event(self.pid(), "symlink", "EEXIST")
            raise OSError(errno.EEXIST, "File exists")
        self.links[filename] = value
        self.link_gen += 1
        self.created_over[self.pid()] = [h for h in self.holders if h != self.pid()]
        self.sim.event(self.pid(), "symlink", "ok")

    def readlink(self, filename):
        self.sched.point("readlink")
        self.maybe_fault("readlink")
        filename = canon(filename)
        if filename not in self.links:
            self.sim.event(self.pid(), "readlink", "ENOENT")
            raise OSError(errno.ENOENT, "No such file or directory")
        self.sim.event(self.pid(), "readlink", self.pname(self.links[filename]))
        return self.links[filename]

    def rmlink(self, filename):
        self.sched.point("rmlink")
        self.maybe_fault("rmlink")
        filename = canon(filename)
        if filename not in self.links:
            self.sim.event(self.pid(), "rmlink", "ENOENT")
            raise OSError(errno.ENOENT, "No such file or directory")
        owner = int(self.links[filename])
        me = self.pid()
        if me in self.in_lock and owner != me:
            if owner in self.alive and self.esrch.get(me) not in (None, owner) and self.esrch[me] not in self.alive:
                # TOCTOU: the breaker's kill(0) check was about a previous, dead owner whose
                # link another breaker has meanwhile replaced with its own (the listed known finding)
                self.race = True
                self.sim.probe("breaker_removed_live_link")
                self.sim.event(me, "rmlink", "REMOVES-LIVE-LINK-OF", self.pname(owner))
            elif owner in self.alive:
                self.sim.event(me, "rmlink", "removes-live-link-without-stale-check", self.pname(owner))
            elif owner in self.zombies:
                self.sim.event(me, "rmlink", "dead-unreaped", self.pname(owner))
            else:
                self.broke_stale += 1
                self.sim.probe("stale_lock_broken")
                self.sim.event(me, "rmlink", "stale", self.pname(owner))
        else:
            self.sim.event(me, "rmlink", "own" if owner == me else "other:" + self.pname(owner))
            if owner != me and owner in self.alive:
                # unlock() by a process that does not own the link (e.g. a forked child cleaning up an inherited lock object)
                self.foreign_unlock = (me, owner)
        del self.links[filename]
        self.link_gen += 1

    def kill(self, pid, sig):
        self.sched.point("kill")
        self.maybe_fault("kill")
        if pid in self.zombies:
            # dead but not reaped: the signal is "delivered"; the parent reaps it after a few such probes
            self.sim.probe("unreaped_owner_probed")
            self.sim.event(self.pid(), "kill", self.pname(pid), "unreaped")
            self.zombies[pid] -= 1
            if self.zombies[pid] <= 0:
                self.reap(pid)
            return
        if pid in self.mtx:
            self.sim.probe("running_owner_with_ended_initial_thread_probed")
        if pid not in self.alive:
            self.esrch[self.pid()] = pid
            self.sim.event(self.pid(), "kill", self.pname(pid), "ESRCH")
            raise OSError(errno.ESRCH, "No such process")
        self.saw_alive[self.pid()] = pid
        self.sim.event(self.pid(), "kill", self.pname(pid), "alive")


class _Path:
    """os.path as the simulated processes see it (the simulated tree for what it contains, lexical functions as they are)."""
    def __init__(self, world):
        self._w = world

    def abspath(self, p):
        cwd = CWD.encode() if isinstance(p, bytes) else CWD
        return posixpath.normpath(posixpath.join(cwd, _real_os.fspath(p)))

    def realpath(self, p, **kw):
        c = canon(p)
        return c.encode() if isinstance(_real_os.fspath(p), bytes) else c

    def exists(self, p):
        return self._w.exists(p)

    def lexists(self, p):
        return self._w.exists(p, follow=False)

    def islink(self, p):
        return canon(p) in self._w.links or self.abspath(_real_os.fsdecode(p)) in DIRLINKS

    def isdir(self, p):
        c = canon(p)
        return c in DIRS or (c.startswith("/proc/") and c.count("/") == 2 and self._w.exists(p))

    def samefile(self, a, b):
        return canon(a) == canon(b)

    def __getattr__(self, n):
        return getattr(posixpath, n)


class _OS:
    """The os module as the simulated processes see it: identity, working directory, the process table and the lock's
    directory come from the simulation, everything else is the real module."""
    def __init__(self, world):
        self._w = world
        self.path = _Path(world)
        self.kill, self.symlink, self.readlink = world.kill, world.symlink, world.readlink
        self.remove = self.unlink = world.rmlink

    def getpid(self):
        return self._w.pid()

    def getppid(self):
        return 1

    def getcwd(self):
        return CWD

    def getcwdb(self):
        return CWD.encode()

    def listdir(self, p="."):
        c = canon(p)
        if c == "/proc":
            return [str(x) for x in sorted(self._w.alive | set(self._w.zombies))]
        if c == "/locks":
            return ["sub"] + [k.rsplit("/", 1)[1] for k in sorted(self._w.links)]
        return _real_os.listdir(p)

    def __getattr__(self, n):
        return getattr(_real_os, n)


STALE_BUDGET = 3  # consecutive lock() attempts of one waiter against an untouched stale link that may fail
LONE_BUDGET = 3   # lock() attempts a persistent waiter gets once every other process has finished or died


def run(sim):
    nproc = sim.draw_int(2, 4, "nproc")
    stale_initial = sim.draw_bool(0.5, "stale_initial")
    deaths = sim.draw_bool(0.35, "deaths")
    rounds = sim.draw_int(1, 3, "rounds")
    # optional families, one draw (index 0 = none, index 1 = forks only): "forks" = a holder forks and the child uses the
    # inherited lock object; "oserr" = a few intercepted calls fail with a transient OS error instead of being carried out,
    # inside lock() and inside unlock(), and the caller tries again; "altobj" = a holder may release through another
    # FilesystemLock object for the same path (ownership is per process: unlock() refuses only locks "not owned by this process")
    # "procs" = the process table has more states than running/gone: a process that ends (dying as holder, or exiting after
    # its last round) may stay unreaped for a few kill() probes, a running process may have ended its initial thread, and the
    # simulated /proc shows all of that; "names" = a process opens further handles on the lock (isLocked() probes while it
    # holds and while it does not), and every handle may name the lock by another spelling of its path
    extras = sim.draw_weighted([((), 8), (("forks",), 3), (("oserr",), 4), (("forks", "oserr"), 2), (("altobj",), 1),
                                (("oserr", "altobj"), 1), (("forks", "oserr", "altobj"), 1),
                                (("procs",), 3), (("names",), 3), (("procs", "names"), 1), (("procs", "forks", "oserr"), 1),
                                (("names", "altobj", "oserr"), 1), (("procs", "names", "forks", "altobj"), 1)], "extras")
    forks, oserr, altobj, procs, names = ("forks" in extras, "oserr" in extras, "altobj" in extras, "procs" in extras, "names" in extras)
    if procs and not deaths:
        deaths = sim.draw_bool(0.6, "procs_deaths")
    # how each process waits for a lock it did not get (always with the SAME lock object): "bounded" = up to 6 attempts
    # per round, then it gives the round up; "persistent" = it keeps calling lock() until it holds the lock;
    # "deferred" = DeferredFilesystemLock.deferUntilLocked() polling once per interval on the process's own simulated
    # clock.  The non-bounded styles are drawn in the runs in which a lock can go stale in mid-run (holder deaths):
    # that is where "a waiter that has already failed against the live owner must still get the lock after the owner
    # died" is decided; all other runs keep the bounded style.
    styles = ["bounded"] * nproc
    if deaths:
        styles = [sim.draw_weighted([("bounded", 2), ("persistent", 1), ("deferred", 1)], "style") for _ in range(nproc)]
    sim.config = {"nproc": nproc, "stale_initial": stale_initial, "deaths": deaths, "rounds": rounds, "forks": forks, "styles": styles, "oserr": oserr, "altobj": altobj,
                  "procs": procs, "names": names}
    # every run starts from a freshly executed lockfile module (as a parent that has just imported it and forks the
    # contenders): whatever the module keeps at module level cannot travel from one run into the next
    importlib.reload(lockfile)
    sched = T.Scheduler(sim)
    w = World(sim, sched)
    if oserr:
        w.oserr_left = sim.draw_int(1, 3, "oserr_budget")
    saved = {n: getattr(lockfile, n) for n in ("symlink", "readlink", "rmlink", "kill", "os")}
    lockfile.symlink, lockfile.readlink, lockfile.rmlink, lockfile.kill = w.symlink, w.readlink, w.rmlink, w.kill
    lockfile.os = _OS(w)
    lockfile.open = w.open  # the builtin, as far as code of the module is concerned: /proc is the simulated one
    holders = w.holders
    stats = {"acquired": 0}
    objs = {}        # pid -> the lock object the process used throughout
    stale_fails = {} # pid -> consecutive failed attempts against an untouched stale link
    finished = []    # pids whose process ran to its end without dying
    faulted = set()  # pids whose latest lock() attempt was ended by an injected OS error (it does not count for any budget)

    def clause(name):
        # violations that follow a breaker removing a live holder's link are the known finding, not repaired, listed in
        # known_findings.json (C50:stale-break-race:*)
        return ("stale-break-race", name) if w.race else (name, "")

    nchild = [0]

    def spell():
        """The name under which a handle is opened."""
        if not names:
            return NAME
        k = sim.draw_int(0, len(SPELLINGS) - 1, "spelling")
        if k:
            sim.probe("handle_opened_under_another_spelling")
        return SPELLINGS[k]

    def ends(pid):
        """Process pid stops running (death as holder, or exit)."""
        w.leaves(pid, sim.draw_int(1, 3, "unreaped_for") if procs and sim.draw_bool(0.5, "unreaped") else 0)

    def probe(pid, holding):
        """Process pid asks isLocked() about the lock through a handle of its own.  Whoever holds keeps holding: the probe
        may not have taken the lock while ANOTHER process held it (what it does to the asking process's own tenure shows
        in that holder's next steps: exclusive(), release())."""
        name = spell()
        sim.probe("holder_asks_isLocked" if holding else "non_holder_asks_isLocked")

        def ask():
            try:
                return not lockfile.isLocked(name)
            except Exception as e:
                # no error is ever injected into a probe: either its lock() raised, or it took the lock and then was
                # the one holder that cannot release
                c, wit = clause("isLocked-raised")
                sim.fail(c, wit or type(e).__name__, "isLocked() in process %d raised %r" % (pid, e))
        w.probing.add(pid)
        w.created_over.pop(pid, None)
        try:
            free = attempt(pid, ask)
        finally:
            w.probing.discard(pid)
        sim.event(pid, "IS-LOCKED", "no" if free else "yes", "holding" if holding else "")
        if free:
            over = w.created_over.get(pid)
            c, wit = clause("mutual-exclusion")
            sim.check(c, not over, wit or "isLocked-took-the-lock-beside-a-holder",
                      lambda: "isLocked() in process %d answered False, i.e. its lock() succeeded, while %r held the lock" % (pid, over))
        if holding:
            exclusive()

    def exclusive():
        c, wit = clause("mutual-exclusion")
        sim.check(c, len(holders) == 1, wit or "two-holders", lambda: "processes %r are all between lock()==True and unlock()" % (holders,))

    def release(pid, lk):
        """The holder pid releases.  unlock() may fail with an OS error that was injected into THIS call (the holder still
        holds then and simply tries again, others run in between); any other failure is the holder being unable to release."""
        while True:
            other = altobj and sim.draw_bool(0.5, "release_through_another_object")
            if other:
                sim.probe("holder_releases_through_another_object")
            w.injected.pop(pid, None)
            try:
                (lockfile.FilesystemLock(spell()) if other else lk).unlock()
                return
            except Exception as e:
                if isinstance(e, OSError) and w.injected.get(pid):
                    sim.probe("holder_retries_unlock_after_oserror")
                    sim.event(pid, "UNLOCK-FAILED-RETRYING")
                    sched.point("retry-unlock")
                    exclusive()
                    continue
                c, wit = clause("holder-unlock-raised")
                sim.fail(c, wit or (("through-another-object-for-the-path:" if other else "") + type(e).__name__), "unlock() by the holder %d raised %r" % (pid, e))

    def child(cpid, inherited):
        w.injected.pop(cpid, None)
        try:
            inherited.unlock()
            outcome = "returned"
        except (ValueError, OSError) as e:
            outcome = type(e).__name__
        sim.event(cpid, "CHILD-UNLOCK", outcome)
        c, wit = clause("non-holder-unlock-removed-live-link")
        sim.check(c, w.foreign_unlock is None, wit or "forked-child", lambda: "unlock() in process %d removed the link of live holder %d (unlock %s)" % (w.foreign_unlock + (outcome,)))
        if sim.draw_bool(0.5, "child_contends"):
            # the child goes on to contend for the lock itself, with the inherited object (whose flags say "locked")
            sim.probe("forked_child_contends_with_inherited_object")
            if attempt(cpid, inherited.lock):
                sim.probe("forked_child_acquired")
                holders.append(cpid)
                sim.event(cpid, "ACQUIRED", "clean" if inherited.clean else "unclean")
                exclusive()
                sched.point("critical-section")
                exclusive()
                release(cpid, inherited)
                holders.remove(cpid)
                sim.event(cpid, "RELEASED")
        ends(cpid)

    def attempt(pid, fn):
        """One lock() attempt of process pid (fn calls the real lock(), directly or through a timer); returns its result."""
        o = w.saw_alive.get(pid)
        if o is not None and o not in w.alive and w.links.get(NAME) == str(o):
            # the waiter's previous attempt found the owner running; the owner has died holding the lock since
            sim.probe("same_object_retry_after_owner_died")
        gen0, stale0 = w.link_gen, w.stale_owner()
        w.in_lock.add(pid)
        w.esrch.pop(pid, None)
        w.injected.pop(pid, None)
        faulted.discard(pid)
        try:
            try:
                got = fn()
            except OSError as e:
                if w.injected.get(pid):
                    # lock() passes on an OS error it cannot interpret: the attempt gave no answer (neither held nor refused)
                    sim.probe("lock_attempt_ended_by_injected_oserror")
                    faulted.add(pid)
                    return False
                c, wit = clause("lock-raised")
                sim.fail(c, wit or type(e).__name__, "lock() raised %r" % (e,))
        finally:
            w.in_lock.discard(pid)
        # bounded form of "a lock left by a dead process can eventually be acquired" for ONE waiter and ITS lock object:
        # an attempt during which the link was, from start to end, the same link of the same dead owner (nobody created
        # or removed it meanwhile) met nothing but a stale lock; STALE_BUDGET such attempts in a row must not all fail
        if not got and stale0 is not None and w.link_gen == gen0:
            stale_fails[pid] = stale_fails.get(pid, 0) + 1
            c, wit = clause("stale-lock-eventually-acquired")
            sim.check(c, stale_fails[pid] < STALE_BUDGET, wit or "waiter-reusing-its-lock-object",
                      lambda: "%d lock() attempts in a row by process %d on its lock object returned False although the link named the dead process %d "
                              "and was not touched by anybody during any of them; alive=%r" % (stale_fails[pid], pid, stale0, sorted(w.alive)))
        else:
            stale_fails.pop(pid, None)
        return got

    def others_done():
        me = sched.me()
        # (a dead owner that is not reaped yet cannot be told from a running one: the waiter's own probes get it reaped)
        return all(t.state == "done" for t in sched.threads if t is not me) and not w.unreaped_owner()

    def wait_persistently(pid, lk, style, clk):
        """The waiter does not give up: plain lock() polling or deferUntilLocked() on the waiter's clock.  Bounded liveness:
        once every other process has finished or died nobody alive holds the lock (it is free or stale), so an attempt
        that STARTS after that point is a lone contender's attempt; LONE_BUDGET of them must be enough."""
        fired = []
        lone = 0
        polls = 0
        while True:
            alone = others_done()
            lone += 1 if alone else 0
            if lone == 1 and alone:
                sim.probe("waiter_alone_budget_started")
            if style == "persistent":
                got = attempt(pid, lk.lock)
            elif polls == 0:
                def begin():
                    lk.deferUntilLocked().addCallback(fired.append)
                    return bool(fired)
                got = attempt(pid, begin)
            else:
                def tick():
                    clk.advance(lk._interval)
                    return bool(fired)
                got = attempt(pid, tick)
            polls += 1
            if got:
                return True
            if pid in faulted and alone:
                lone -= 1
            sim.probe("persistent_waiter_polls_again" if style == "persistent" else "deferred_waiter_polls_again")
            if lone >= LONE_BUDGET:
                c, wit = clause("stale-lock-eventually-acquired")
                sim.fail(c, wit or "waiter-reusing-its-lock-object",
                         "process %d (%s waiter) made %d lock() attempts on its lock object after every other process had finished or died "
                         "and none succeeded; links=%r alive=%r" % (pid, style, lone, w.links, sorted(w.alive)))
            sched.point("retry")

    def process(pid, nrounds, style):
        clk = None
        if style == "deferred":
            clk = SimClock()
            lk = defer.DeferredFilesystemLock(spell(), scheduler=clk)
            w.oserr_exempt.add(pid)  # its lock() runs from a timer: an OS error there is the reactor's business, not the statement's
        else:
            lk = lockfile.FilesystemLock(spell())
        objs[pid] = lk
        # the holder need not keep the handle it locked with (unlock() works from any handle of the owning process): such a
        # process takes the lock through a handle it drops as soon as lock() has answered
        throwaway = altobj and style == "bounded" and sim.draw_bool(0.4, "throwaway_handles")
        if procs:
            w.comm[pid] = sim.draw_choice(COMMS, "comm")
            if sim.draw_bool(0.4, "initial_thread_ended"):
                # the process goes on running in its other threads (this one does the locking); /proc shows its leader as Z
                w.mtx.add(pid)
                sim.fault("running_process_initial_thread_ended")
        for r in range(nrounds):
            got = False
            if names and sim.draw_bool(0.3, "probe_idle"):
                probe(pid, False)
            clean = None
            if style == "bounded":
                for _ in range(6):
                    h = lockfile.FilesystemLock(spell()) if throwaway else lk
                    got = attempt(pid, h.lock)
                    clean = h.clean
                    h = None
                    if got:
                        break
                    sched.point("retry")
            else:
                got = wait_persistently(pid, lk, style, clk)
                clean = lk.clean
            if not got:
                continue
            if throwaway:
                sim.probe("holder_dropped_the_handle_it_locked_with")
            stats["acquired"] += 1
            holders.append(pid)
            sim.event(pid, "ACQUIRED", "clean" if clean else "unclean")
            exclusive()
            for _ in range(sim.draw_int(0, 2, "cs")):
                sched.point("critical-section")
                exclusive()
            if names and sim.draw_bool(0.4, "probe_holding"):
                probe(pid, True)
                sched.point("critical-section")
                exclusive()
            if forks and sim.draw_bool(0.4, "fork"):
                # the holder forks; the child inherits a copy of the lock object (locked flag set) and releases its inherited
                # resources: its unlock() is a non-holder's unlock and must leave the parent's lock alone
                nchild[0] += 1
                cpid = 200 + nchild[0]
                w.alive.add(cpid)
                w.known.add(cpid)
                w.pid_of["p%d" % cpid] = cpid
                sim.fault("fork_child_unlocks_inherited_lock")
                sched.spawn("p%d" % cpid, child, cpid, copy.copy(lk))
                for _ in range(sim.draw_int(0, 2, "cs2")):
                    sched.point("critical-section")
                    exclusive()
            if deaths and sim.draw_bool(0.3, "die"):
                sim.fault("process_death_holding_lock")
                sim.event(pid, "DIES")
                holders.remove(pid)
                ends(pid)
                return
            release(pid, lk)
            holders.remove(pid)
            sim.event(pid, "RELEASED")
        if procs and sim.draw_bool(0.4, "exit"):
            # the process exits after its last round (it does not come back after the run)
            sim.fault("process_exits_after_last_round")
            sim.event(pid, "EXITS")
            ends(pid)
            return
        finished.append(pid)

    # whatever a lock object does when it is finalised must happen at a point the tape decides (a handle dropped by its
    # process), never at a moment the cycle collector picks: automatic collection waits until the run is over
    gc_was_on = gc.isenabled()
    gc.disable()
    try:
        if stale_initial:
            w.links[NAME] = "99"  # pid 99 is not alive
            sim.fault("initial_stale_lock")
        for i in range(nproc):
            pid = 100 + i
            w.alive.add(pid)
            w.known.add(pid)
            w.pid_of["p%d" % pid] = pid
        for i in range(nproc):
            sched.spawn("p%d" % (100 + i), process, 100 + i, rounds, styles[i])
        try:
            sched.run(max_steps=20000)
        except T.Deadlock as e:
            sim.fail("deadlock", "", str(e))
        if sched.unfinished():
            # step budget used up (the statement does not bound how long contenders may keep each other busy): no verdict
            sim.event("STEP-BUDGET-EXHAUSTED")
            sim.nontrivial = False
            return
        # liveness once faults stop: nobody alive holds the lock any more, so it is free or stale.
        w.oserr_left = 0
        for z in sorted(w.zombies):
            w.reap(z)  # ... and every dead process has been reaped by now
        sim.check("internal-no-holder-left", not holders, "", "holders %r at the end" % (holders,))
        res = {}

        def lone_turn(pid, lk, key, wit0, what):
            w.pid_of["late"] = pid   # the one "late" thread plays each returning process in turn (they run strictly one after the other)
            res[key] = attempt(pid, lk.lock)
            c, wit = clause("stale-lock-eventually-acquired")
            sim.check(c, res[key] is True, wit or wit0, lambda: "%s could not acquire the lock on its own after all others finished/died: %r; links=%r" % (what, res, w.links))
            sim.event(pid, "ACQUIRED-ALONE", "clean" if lk.clean else "unclean")
            lk.unlock()

        def late(order):
            # (a) the surviving processes come back one at a time, in a tape-chosen order, each with the lock object it has
            #     been using all along - whatever that object has seen before (owners that were running then, lost races,
            #     its own earlier tenures) must not keep it from taking a lock that is free or stale now
            for pid in order:
                if w.links.get(NAME) is not None:
                    sim.probe("survivor_returns_to_stale_lock")
                sim.probe("survivor_returns_with_used_object")
                lone_turn(pid, objs[pid], "again-%d" % pid, "survivor-reusing-its-lock-object", "process %d, reusing its lock object," % pid)
            # (b) a fresh contender with a fresh object
            w.alive.add(500)
            w.known.add(500)
            lone_turn(500, lockfile.FilesystemLock(spell()), "locked", "", "a lone fresh contender")

        sched.spawn("late", late, sim.draw_perm(sorted(finished)))
        try:
            with sim.guard(*(clause("late-contender-raised"))):
                sched.run(max_steps=2000)
        except T.Deadlock as e:
            sim.fail("deadlock", "late", str(e))
        sim.check("internal-late-phase-ran", res.get("locked") is True, "", "late phase did not finish: %r" % (res,))
        sim.check("lock-released-leaves-no-link", NAME not in w.links, "", "link left: %r" % (w.links,))
    finally:
        sched.shutdown()
        for n, v in saved.items():
            setattr(lockfile, n, v)
        lockfile.__dict__.pop("open", None)
        # no handle is finalised by the cycle collector in the middle of a run (see gc.disable() above): what is left of this
        # run is collected between runs, on the real module functions
        objs.clear()
        if gc_was_on:
            gc.enable()
    sim.state((nproc, stale_initial, deaths, min(w.broke_stale, 2), w.race, tuple(sorted(set(styles))), oserr))
    sim.nontrivial = w.eexist > 0 and sim.faults.get("interleave", 0) > 0


MUTANTS = [
    "seeded C50-r6a-unreaped-owner-check (after a successful kill the owner is looked up in /proc/<pid>/stat, state Z/X = gone): missed while the process table knew only running/gone and "
    "the module's open() reached the host's /proc; caught with family 'procs' (running owner whose initial thread has ended): mutual-exclusion:two-holders, holder-unlock-raised:FileNotFoundError, "
    "isLocked-raised:FileNotFoundError.  A really dead, unreaped owner's lock is broken by that change without any verdict (allowed)",
    "seeded C50-r6b-own-pid-leftover-registry (module-level registry of held locks keyed by abspath of the spelling): missed while every handle used one spelling and nobody asked isLocked(); "
    "caught with family 'names' (holder asks isLocked() under another spelling): holder-unlock-raised:FileNotFoundError, :through-another-object-for-the-path:FileNotFoundError, mutual-exclusion:two-holders",
    "seeded C50-r5b-del-releases-lock-on-gc: used to be found only through lock objects of EARLIER runs being collected inside a later run (not replayable -> harness error); now the cycle collector "
    "waits until a run is over and a bounded waiter of the 'altobj' family takes the lock through a throw-away handle: caught in quick (mutual-exclusion:two-holders, holder-unlock-raised:*FileNotFoundError)",
    "lockfile.py lock(): 'if int(pid) == os.getpid(): raise OSError(ESRCH)' before kill (a link with our own pid is a leftover): caught with 'names' "
    "(mutual-exclusion:isLocked-took-the-lock-beside-a-holder, :two-holders, holder-unlock-raised:FileNotFoundError)",
    "lockfile.py lock(): after kill, b'\\tZ ' in open('/proc/<pid>/status','rb').read() -> ESRCH: caught with 'procs' (holder-unlock-raised:FileNotFoundError, isLocked-raised:ValueError, "
    "lock-raised:FileNotFoundError when the owner is reaped between kill and open)",
    "lockfile.py lock(): kill(pid, 0) replaced by 'not os.path.exists(\"/proc/<pid>\") -> ESRCH': NOT caught, correctly - /proc/<pid> exists exactly as long as kill succeeds (only the known stale-break race "
    "shows, under its listed signature; its witness tape shifts by the missing kill hand-over)",
    "seeded C50-enoent-rmlink: caught (mutual-exclusion:two-holders, holder-unlock-raised)",
    "seeded C50-r2-unlock-skips-owner-check: caught (non-holder-unlock-removed-live-link:forked-child)",
    "seeded C50-r3-cached-owner-liveness (lock object remembers an owner it saw running): missed before the objects' history was put under test; "
    "caught (stale-lock-eventually-acquired:waiter-reusing-its-lock-object in the run, :survivor-reusing-its-lock-object after it)",
    "lockfile.py ESRCH branch: 'if self.clean is not None: return False' before rmlink (an object that has held the lock once never breaks a stale lock): "
    "missed by the fresh-contender-only liveness check; caught (both stale-lock-eventually-acquired witnesses)",
    "lockfile.py 'if e.errno == errno.ESRCH:' -> '... and self.clean is None:' / '... and clean:': caught (lock-raised:ProcessLookupError)",
    "seeded C50-r4a-pid-cached-at-import (identity looked up once at import instead of per call): the first version of the check did find two holders but logged the raw link "
    "contents, so the violation did not replay identically in a fresh interpreter (harness error, not a verdict); link contents are now named abstractly: "
    "caught (mutual-exclusion:two-holders, holder-unlock-raised:FileNotFoundError)",
    "seeded C50-r4b-unlock-guard-clears-locked (a failed unlock() clears the object's flag, later unlock() calls are refused): missed while no call ever failed and every holder "
    "released once through the object it locked with; caught with the transient-OS-error family (holder-unlock-raised:ValueError) and the release-through-another-object "
    "family (holder-unlock-raised:through-another-object-for-the-path:ValueError)",
    "lockfile.py 'if e.errno == errno.ESRCH:' -> 'if e.errno in (errno.ESRCH, errno.EPERM):' (an owner we may not signal is taken for dead): caught with the injected EPERM "
    "(mutual-exclusion:two-holders, holder-unlock-raised:FileNotFoundError)",
    "lockfile.py unlock(): OSError from rmlink swallowed, locked = False anyway (holder believes it released, link stays): caught (both stale-lock-eventually-acquired witnesses)",
    "lockfile.py pid cached on first use in a module-level list instead of os.getpid() per call: caught (mutual-exclusion:two-holders, "
    "non-holder-unlock-removed-live-link:forked-child; some signatures do not replay in a fresh interpreter because the cache outlives a run)",
    "lockfile.py unlock(): 'if not self.locked: raise ValueError' alone: caught (holder-unlock-raised:through-another-object-for-the-path:ValueError)",
    "lockfile.py lock(): an unexpected readlink error / an EIO from the stale-breaking rmlink answered with 'continue' instead of raise: NOT caught, deliberately - lock() then "
    "simply tries again, which the statement allows",
]
