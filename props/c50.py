"""C50 — filesystem lock is mutually exclusive even when breaking stale locks.

Engine E5 (baton threads) + an in-memory link table.  Each simulated *process*
is a sim-thread with its own pid running the real FilesystemLock.lock()/unlock();
the module-level symlink/readlink/rmlink/kill and os.getpid are rebound to the
simulator, every such call is a hand-over point and executes atomically against
the link table (symlink = atomic create-or-EEXIST, the property the class relies
on).  A process table decides kill(pid, 0).  The tape picks which process runs
next at every call, whether a holder dies inside its critical section (leaving a
stale link) and whether a stale link exists initially.

Every process keeps ONE lock object for all its attempts and rounds (that is how
callers such as DeferredFilesystemLock use the class), so whatever the object
remembers from earlier attempts is part of the state under test.  Liveness is
checked in three bounded forms: (1) in the run, no waiter may fail STALE_BUDGET
times in a row against a stale link that nobody touched during those attempts;
(2) a waiter that never gives up (plain polling, or deferUntilLocked() on its own
simulated clock) must hold the lock within LONE_BUDGET attempts once every other
process has finished or died; (3) after the run each surviving process returns
alone with its used object, then a fresh contender with a fresh object.
"""
import copy
import errno

from twisted.internet import defer
from twisted.python import lockfile

from detsim import threads as T
from detsim.clock import SimClock

ID = "C50"
ENGINE = "threads"
LEVEL = "exploration"
TECHNIQUE = "deterministic simulation: real lock()/unlock() on baton-passing threads, tape-chosen interleaving at every intercepted filesystem call, process death as fault"
QUICK_RUNS = 4000
BATCH = 60
COMPONENTS = {"real": ["twisted.python.lockfile.FilesystemLock.lock/unlock", "twisted.python.lockfile.isLocked",
                       "twisted.internet.defer.DeferredFilesystemLock.deferUntilLocked (polling waiter, no timeout)"],
              "stub": ["symlink/readlink/remove/kill/getpid (in-memory link + process tables, atomic per call)", "process scheduling (baton threads, tape-chosen)",
                       "each polling waiter's IReactorTime (detsim SimClock, advanced one interval per poll)"]}
RULE = ("run = 2..4 simulated processes each doing 1..3 rounds of lock -> critical section -> unlock on one path, interleaved at every intercepted call; "
        "optional initial stale link, optional death of a holder inside its critical section, optional fork of a holder whose child calls unlock() on the inherited lock object; "
        "each process reuses one lock object for every attempt; in runs with holder deaths each process draws how it waits: bounded (6 attempts per round), persistent (lock() until it succeeds) "
        "or deferred (DeferredFilesystemLock.deferUntilLocked() polling once per interval on its own simulated clock), so that an owner can die between two attempts of the same waiter; "
        "after the run the survivors come back alone one by one (tape-chosen order) with their used objects, then a fresh contender; "
        "non-trivial = at least two processes contended (an EEXIST was seen) and the tape switched processes between two calls of one lock()")
ASSUMPTIONS = ["symlink() is atomic create-or-EEXIST; readlink/remove/kill are atomic individually", "pids are not reused during a run",
               "'eventually' is read in bounded form: 3 attempts in a row of one waiter against a stale link nobody else touched, 3 attempts of a waiter that is the only process left, "
               "1 attempt of a process that comes back alone after the run; a run that uses up its 20000-step budget gives no verdict (the statement does not bound contention)",
               "a process that dies does so inside its critical section (never in the middle of lock()/unlock())"]

NAME = "/locks/the.lock"


class World:
    def __init__(self, sim, sched):
        self.sim = sim
        self.sched = sched
        self.links = {}
        self.alive = set()
        self.pid_of = {}       # thread name -> pid
        self.in_lock = set()   # pids currently inside lock()
        self.race = False      # a breaker removed a link owned by a live process
        self.eexist = 0
        self.broke_stale = 0
        self.esrch = {}        # pid -> the dead pid its latest kill(0) reported ESRCH for
        self.foreign_unlock = None  # (pid, owner): an unlock() removed a live owner's link
        self.link_gen = 0      # bumped whenever the link is created or removed
        self.saw_alive = {}    # pid -> the owner its latest kill(0) reported as running (lock() then returned False)

    def stale_owner(self):
        """The dead pid the link names, or None (no link / owner running)."""
        v = self.links.get(NAME)
        return int(v) if v is not None and int(v) not in self.alive else None

    def pid(self):
        t = self.sched.me()
        return self.pid_of[t.name] if t is not None else 1

    # interposed module-level functions
    def symlink(self, value, filename):
        self.sched.point("symlink")
        if filename in self.links:
            self.eexist += 1
            self.sim.event(self.pid(), "symlink", "EEXIST")
            raise OSError(errno.EEXIST, "File exists")
        self.links[filename] = value
        self.link_gen += 1
        self.sim.event(self.pid(), "symlink", "ok")

    def readlink(self, filename):
        self.sched.point("readlink")
        if filename not in self.links:
            self.sim.event(self.pid(), "readlink", "ENOENT")
            raise OSError(errno.ENOENT, "No such file or directory")
        self.sim.event(self.pid(), "readlink", self.links[filename])
        return self.links[filename]

    def rmlink(self, filename):
        self.sched.point("rmlink")
        if filename not in self.links:
            self.sim.event(self.pid(), "rmlink", "ENOENT")
            raise OSError(errno.ENOENT, "No such file or directory")
        owner = int(self.links[filename])
        me = self.pid()
        if me in self.in_lock:
            if owner in self.alive and self.esrch.get(me) not in (None, owner) and self.esrch[me] not in self.alive:
                # TOCTOU: the breaker's kill(0) check was about a previous, dead owner whose
                # link another breaker has meanwhile replaced with its own (the listed known finding)
                self.race = True
                self.sim.probe("breaker_removed_live_link")
                self.sim.event(me, "rmlink", "REMOVES-LIVE-LINK-OF", owner)
            elif owner in self.alive:
                self.sim.event(me, "rmlink", "removes-live-link-without-stale-check", owner)
            else:
                self.broke_stale += 1
                self.sim.probe("stale_lock_broken")
                self.sim.event(me, "rmlink", "stale", owner)
        else:
            self.sim.event(me, "rmlink", "own" if owner == me else "other:%d" % owner)
            if owner != me and owner in self.alive:
                # unlock() by a process that does not own the link (e.g. a forked child cleaning up an inherited lock object)
                self.foreign_unlock = (me, owner)
        del self.links[filename]
        self.link_gen += 1

    def kill(self, pid, sig):
        self.sched.point("kill")
        if pid not in self.alive:
            self.esrch[self.pid()] = pid
            self.sim.event(self.pid(), "kill", pid, "ESRCH")
            raise OSError(errno.ESRCH, "No such process")
        self.saw_alive[self.pid()] = pid
        self.sim.event(self.pid(), "kill", pid, "alive")


class _OS:
    def __init__(self, world):
        self._w = world

    def getpid(self):
        return self._w.pid()

    def __getattr__(self, n):
        import os
        return getattr(os, n)


STALE_BUDGET = 3  # consecutive lock() attempts of one waiter against an untouched stale link that may fail
LONE_BUDGET = 3   # lock() attempts a persistent waiter gets once every other process has finished or died


def run(sim):
    nproc = sim.draw_int(2, 4, "nproc")
    stale_initial = sim.draw_bool(0.5, "stale_initial")
    deaths = sim.draw_bool(0.35, "deaths")
    rounds = sim.draw_int(1, 3, "rounds")
    forks = sim.draw_bool(0.25, "forks")
    # how each process waits for a lock it did not get (always with the SAME lock object): "bounded" = up to 6 attempts
    # per round, then it gives the round up; "persistent" = it keeps calling lock() until it holds the lock;
    # "deferred" = DeferredFilesystemLock.deferUntilLocked() polling once per interval on the process's own simulated
    # clock.  The non-bounded styles are drawn in the runs in which a lock can go stale in mid-run (holder deaths):
    # that is where "a waiter that has already failed against the live owner must still get the lock after the owner
    # died" is decided; all other runs keep the bounded style.
    styles = ["bounded"] * nproc
    if deaths:
        styles = [sim.draw_weighted([("bounded", 2), ("persistent", 1), ("deferred", 1)], "style") for _ in range(nproc)]
    sim.config = {"nproc": nproc, "stale_initial": stale_initial, "deaths": deaths, "rounds": rounds, "forks": forks, "styles": styles}
    sched = T.Scheduler(sim)
    w = World(sim, sched)
    saved = {n: getattr(lockfile, n) for n in ("symlink", "readlink", "rmlink", "kill", "os")}
    lockfile.symlink, lockfile.readlink, lockfile.rmlink, lockfile.kill = w.symlink, w.readlink, w.rmlink, w.kill
    lockfile.os = _OS(w)
    holders = []
    stats = {"acquired": 0}
    objs = {}        # pid -> the lock object the process used throughout
    stale_fails = {} # pid -> consecutive failed attempts against an untouched stale link
    finished = []    # pids whose process ran to its end without dying

    def clause(name):
        # violations that follow a breaker removing a live holder's link are the listed known finding
        return ("stale-break-race", name) if w.race else (name, "")

    nchild = [0]

    def child(cpid, inherited):
        try:
            inherited.unlock()
            outcome = "returned"
        except (ValueError, OSError) as e:
            outcome = type(e).__name__
        sim.event(cpid, "CHILD-UNLOCK", outcome)
        c, wit = clause("non-holder-unlock-removed-live-link")
        sim.check(c, w.foreign_unlock is None, wit or "forked-child", lambda: "unlock() in process %d removed the link of live holder %d (unlock %s)" % (w.foreign_unlock + (outcome,)))
        w.alive.discard(cpid)

    def attempt(pid, fn):
        """One lock() attempt of process pid (fn calls the real lock(), directly or through a timer); returns its result."""
        o = w.saw_alive.get(pid)
        if o is not None and o not in w.alive and w.links.get(NAME) == str(o):
            # the waiter's previous attempt found the owner running; the owner has died holding the lock since
            sim.probe("same_object_retry_after_owner_died")
        gen0, stale0 = w.link_gen, w.stale_owner()
        w.in_lock.add(pid)
        w.esrch.pop(pid, None)
        try:
            try:
                got = fn()
            except OSError as e:
                c, wit = clause("lock-raised")
                sim.fail(c, wit or type(e).__name__, "lock() raised %r" % (e,))
        finally:
            w.in_lock.discard(pid)
        # bounded form of "a lock left by a dead process can eventually be acquired" for ONE waiter and ITS lock object:
        # an attempt during which the link was, from start to end, the same link of the same dead owner (nobody created
        # or removed it meanwhile) met nothing but a stale lock; STALE_BUDGET such attempts in a row must not all fail
        if not got and stale0 is not None and w.link_gen == gen0:
            stale_fails[pid] = stale_fails.get(pid, 0) + 1
            c, wit = clause("stale-lock-eventually-acquired")
            sim.check(c, stale_fails[pid] < STALE_BUDGET, wit or "waiter-reusing-its-lock-object",
                      lambda: "%d lock() attempts in a row by process %d on its lock object returned False although the link named the dead process %d "
                              "and was not touched by anybody during any of them; alive=%r" % (stale_fails[pid], pid, stale0, sorted(w.alive)))
        else:
            stale_fails.pop(pid, None)
        return got

    def others_done():
        me = sched.me()
        return all(t.state == "done" for t in sched.threads if t is not me)

    def wait_persistently(pid, lk, style, clk):
        """The waiter does not give up: plain lock() polling or deferUntilLocked() on the waiter's clock.  Bounded liveness:
        once every other process has finished or died nobody alive holds the lock (it is free or stale), so an attempt
        that STARTS after that point is a lone contender's attempt; LONE_BUDGET of them must be enough."""
        fired = []
        lone = 0
        polls = 0
        while True:
            lone += 1 if others_done() else 0
            if lone == 1:
                sim.probe("waiter_alone_budget_started")
            if style == "persistent":
                got = attempt(pid, lk.lock)
            elif polls == 0:
                def begin():
                    lk.deferUntilLocked().addCallback(fired.append)
                    return bool(fired)
                got = attempt(pid, begin)
            else:
                def tick():
                    clk.advance(lk._interval)
                    return bool(fired)
                got = attempt(pid, tick)
            polls += 1
            if got:
                return True
            sim.probe("persistent_waiter_polls_again" if style == "persistent" else "deferred_waiter_polls_again")
            if lone >= LONE_BUDGET:
                c, wit = clause("stale-lock-eventually-acquired")
                sim.fail(c, wit or "waiter-reusing-its-lock-object",
                         "process %d (%s waiter) made %d lock() attempts on its lock object after every other process had finished or died "
                         "and none succeeded; links=%r alive=%r" % (pid, style, lone, w.links, sorted(w.alive)))
            sched.point("retry")

    def process(pid, nrounds, style):
        clk = None
        if style == "deferred":
            clk = SimClock()
            lk = defer.DeferredFilesystemLock(NAME, scheduler=clk)
        else:
            lk = lockfile.FilesystemLock(NAME)
        objs[pid] = lk
        for r in range(nrounds):
            got = False
            if style == "bounded":
                for _ in range(6):
                    got = attempt(pid, lk.lock)
                    if got:
                        break
                    sched.point("retry")
            else:
                got = wait_persistently(pid, lk, style, clk)
            if not got:
                continue
            stats["acquired"] += 1
            holders.append(pid)
            sim.event(pid, "ACQUIRED", "clean" if lk.clean else "unclean")
            c, wit = clause("mutual-exclusion")
            sim.check(c, len(holders) == 1, wit or "two-holders", lambda: "processes %r are all between lock()==True and unlock()" % (holders,))
            for _ in range(sim.draw_int(0, 2, "cs")):
                sched.point("critical-section")
                c, wit = clause("mutual-exclusion")
                sim.check(c, len(holders) == 1, wit or "two-holders", lambda: "processes %r are all between lock()==True and unlock()" % (holders,))
            if forks and sim.draw_bool(0.4, "fork"):
                # the holder forks; the child inherits a copy of the lock object (locked flag set) and releases its inherited
                # resources: its unlock() is a non-holder's unlock and must leave the parent's lock alone
                nchild[0] += 1
                cpid = 200 + nchild[0]
                w.alive.add(cpid)
                w.pid_of["p%d" % cpid] = cpid
                sim.fault("fork_child_unlocks_inherited_lock")
                sched.spawn("p%d" % cpid, child, cpid, copy.copy(lk))
                for _ in range(sim.draw_int(0, 2, "cs2")):
                    sched.point("critical-section")
                    c, wit = clause("mutual-exclusion")
                    sim.check(c, len(holders) == 1, wit or "two-holders", lambda: "processes %r are all between lock()==True and unlock()" % (holders,))
            if deaths and sim.draw_bool(0.3, "die"):
                sim.fault("process_death_holding_lock")
                sim.event(pid, "DIES")
                holders.remove(pid)
                w.alive.discard(pid)
                return
            try:
                lk.unlock()
            except Exception as e:
                c, wit = clause("holder-unlock-raised")
                sim.fail(c, wit or type(e).__name__, "unlock() by the holder %d raised %r" % (pid, e))
            holders.remove(pid)
            sim.event(pid, "RELEASED")
        finished.append(pid)

    try:
        if stale_initial:
            w.links[NAME] = "99"  # pid 99 is not alive
            sim.fault("initial_stale_lock")
        for i in range(nproc):
            pid = 100 + i
            w.alive.add(pid)
            w.pid_of["p%d" % pid] = pid
        for i in range(nproc):
            sched.spawn("p%d" % (100 + i), process, 100 + i, rounds, styles[i])
        try:
            sched.run(max_steps=20000)
        except T.Deadlock as e:
            sim.fail("deadlock", "", str(e))
        if sched.unfinished():
            # step budget used up (the statement does not bound how long contenders may keep each other busy): no verdict
            sim.event("STEP-BUDGET-EXHAUSTED")
            sim.nontrivial = False
            return
        # liveness once faults stop: nobody alive holds the lock any more, so it is free or stale.
        sim.check("internal-no-holder-left", not holders, "", "holders %r at the end" % (holders,))
        res = {}

        def lone_turn(pid, lk, key, wit0, what):
            w.pid_of["late"] = pid   # the one "late" thread plays each returning process in turn (they run strictly one after the other)
            res[key] = attempt(pid, lk.lock)
            c, wit = clause("stale-lock-eventually-acquired")
            sim.check(c, res[key] is True, wit or wit0, lambda: "%s could not acquire the lock on its own after all others finished/died: %r; links=%r" % (what, res, w.links))
            sim.event(pid, "ACQUIRED-ALONE", "clean" if lk.clean else "unclean")
            lk.unlock()

        def late(order):
            # (a) the surviving processes come back one at a time, in a tape-chosen order, each with the lock object it has
            #     been using all along - whatever that object has seen before (owners that were running then, lost races,
            #     its own earlier tenures) must not keep it from taking a lock that is free or stale now
            for pid in order:
                if w.links.get(NAME) is not None:
                    sim.probe("survivor_returns_to_stale_lock")
                sim.probe("survivor_returns_with_used_object")
                lone_turn(pid, objs[pid], "again-%d" % pid, "survivor-reusing-its-lock-object", "process %d, reusing its lock object," % pid)
            # (b) a fresh contender with a fresh object
            w.alive.add(500)
            lone_turn(500, lockfile.FilesystemLock(NAME), "locked", "", "a lone fresh contender")

        sched.spawn("late", late, sim.draw_perm(sorted(finished)))
        try:
            with sim.guard(*(clause("late-contender-raised"))):
                sched.run(max_steps=2000)
        except T.Deadlock as e:
            sim.fail("deadlock", "late", str(e))
        sim.check("internal-late-phase-ran", res.get("locked") is True, "", "late phase did not finish: %r" % (res,))
        sim.check("lock-released-leaves-no-link", NAME not in w.links, "", "link left: %r" % (w.links,))
    finally:
        sched.shutdown()
        for n, v in saved.items():
            setattr(lockfile, n, v)
    sim.state((nproc, stale_initial, deaths, min(w.broke_stale, 2), w.race, tuple(sorted(set(styles)))))
    sim.nontrivial = w.eexist > 0 and sim.faults.get("interleave", 0) > 0


MUTANTS = [
    "seeded C50-enoent-rmlink: caught (mutual-exclusion:two-holders, holder-unlock-raised)",
    "seeded C50-r2-unlock-skips-owner-check: caught (non-holder-unlock-removed-live-link:forked-child)",
    "seeded C50-r3-cached-owner-liveness (lock object remembers an owner it saw running): missed before the objects' history was put under test; "
    "caught (stale-lock-eventually-acquired:waiter-reusing-its-lock-object in the run, :survivor-reusing-its-lock-object after it)",
    "lockfile.py ESRCH branch: 'if self.clean is not None: return False' before rmlink (an object that has held the lock once never breaks a stale lock): "
    "missed by the fresh-contender-only liveness check; caught (both stale-lock-eventually-acquired witnesses)",
    "lockfile.py 'if e.errno == errno.ESRCH:' -> '... and self.clean is None:' / '... and clean:': caught (lock-raised:ProcessLookupError)",
]
