"""C33 — decoding arbitrary bytes as DNS is total and terminates.

Engine E3 (datagram + stream): valid queries/responses are produced by the real
encoder (every record type, compression pointers), then the simulated network
damages them (byte/bit corruption, truncation, duplication, splicing of two
packets, pointer rewrites to cycles / forward references / out of range,
count- and length-field inflation, record-type confusion) and hands them to
  (1) Message.fromStr directly,
  (2) DNSDatagramProtocol.datagramReceived (with and without a pending query),
  (3) DNSProtocol.dataReceived as a length-prefixed TCP stream under tape-chosen
      segmentation (and damaged length prefixes).
Each of the three is ONE long-lived decoder/protocol instance that receives the
run's traffic back to back: every (damaged) packet, in some runs preceded by an
intact message (its own original, i.e. same layout and name offsets, or another
one) and in some runs delivered twice; the consumer either drops each decoded
message at once or retains it to the end of the run (decides which objects die
between two decodes).  The harness does no bookkeeping between two deliveries,
so what a decode inherits from the previous one (class-level or identity-keyed
leftovers) is the same in a search run and in its replay.
Oracle: fromStr returns or raises EOFError/ValueError, nothing else; the UDP
protocol never raises; the TCP protocol never raises anything but what it
treats as a malformed packet (EOFError/ValueError propagate to the transport,
which drops the connection — no verdict on those); every run finishes within
RUN_WALL_LIMIT_S (a trip of the watchdog is a violation of "terminates").
"""
import os
import struct
from io import BytesIO

from twisted.names import dns

ID = "C33"
ENGINE = "net"
LEVEL = "exploration"
TECHNIQUE = ("deterministic simulation: real-encoder DNS messages + seeded network faults (corruption, truncation, splicing, "
             "pointer cycles, length inflation, segmentation) delivered to the real decoders; exception-type and watchdog oracle")
QUICK_RUNS = 36000
TWIN_P = 0.08   # this share of the runs drives two independent instances of the scenario one after the other (detsim.runner._run_scenario)
BATCH = 300
RUN_WALL_LIMIT_S = 4
SHRINK_BUDGET_S = 60   # a hanging candidate costs RUN_WALL_LIMIT_S of CPU each
HANG_IS_VIOLATION = True
COMPONENTS = {
    "real": ["twisted.names.dns.Message.encode/toStr (input generator)", "twisted.names.dns.Message.fromStr/decode/parseRecords",
             "twisted.names.dns.Name.decode, Record_*.decode, RRHeader.decode, Query.decode",
             "twisted.names.dns.DNSDatagramProtocol.datagramReceived/query", "twisted.names.dns.DNSProtocol.dataReceived/query"],
    "stub": ["UDP transport / TCP transport (record writes only)", "controller (records messageReceived)",
             "network: damage operators and TCP segmentation (tape)", "dns.randomSource (tape-driven query id)"],
}
RULE = ("run = 1..3 messages built with the real encoder from a tape-chosen record mix (names partly nested under earlier names of "
        "the run, so that compression pointers chain; fields that carry a code - record type, TSIG error - take their defined "
        "code points as well as undefined and boundary values), 0..4 tape-chosen damage operators each (pointer rewrites include chains "
        "of 1..4 pointers closing on any element: self loops, cycles through the start, rho shapes); "
        "traffic = those packets in order, each with p=0.4 preceded by an intact message (75% its own undamaged original) and "
        "with p=0.12 delivered twice; the traffic is delivered back to back to fromStr, to one UDP protocol instance and "
        "(framed, segmented) to one TCP protocol instance; the consumer retains every decoded message in half of the runs and "
        "drops it at once in the others; non-trivial = at least one damage operator or a TCP segmentation cut actually fired")
ASSUMPTIONS = [
    "EOFError/ValueError escaping DNSProtocol.dataReceived are what the TCP protocol treats as a malformed packet (the transport drops the connection): no verdict",
    "packets are at most a few KiB (measured: <= 1 KiB, median 250 B); the watchdog is CPU time (RUN_WALL_LIMIT_S per run, normal "
    "runs take about 1 ms, the slowest of 12000 took 15 ms)",
    "the statement bounds no decoding TIME, only termination: Name.decode bounds one name by its visited set, but the work per "
    "message is quadratic in its size (H chained pointers below offset 16384 shared by N names cost H*N hops: measured 0.05 s at "
    "4 KiB, 0.75 s at 16 KiB, 2.9 s at 32 KiB, 14 s for a 65531-byte TCP frame of 8192 questions over an 8184-hop chain; all "
    "terminate).  No verdict on that; it only limits the workload: the watchdog stays a sound 'does not terminate' verdict "
    "as long as packets stay under about 4 KiB (at most 27 decodes of 0.05 s in a run, twice that in a twin-instance run: < 3 s of the 4 s, and only for inputs built for it), so the generator must not be "
    "extended to full-size TCP frames without raising RUN_WALL_LIMIT_S accordingly (>= 60 s per 64 KiB delivery)",
    "the consumer (controller.messageReceived, the Deferred of a pending query) never calls back into dataReceived of the "
    "protocol that is delivering to it (real reactor transports never deliver re-entrantly).  DNSProtocol.dataReceived keeps "
    "the current frame in self.buffer with self.length set while it dispatches, so a nested dataReceived decodes and dispatches "
    "the same frame again and the outer call then cuts self.buffer by the inner call's self.length (bytes of a partly received "
    "next frame are lost, the stream is misframed).  That concerns how often and in which framing messages are dispatched, on "
    "which the statement is silent; every exception it leads to is EOFError/ValueError from the misframed bytes (a consumer "
    "that re-enters on EVERY message recurses through its own calls).  No such consumer, no verdict",
    "every run and every stage starts with one decode of a fixed plain query from a buffer that stays alive for the run, so that "
    "decoder memory of 'the previous buffer' never refers to an earlier run or stage (warm workers); leakage between two "
    "instances of the whole scenario is covered by the twin-instance runs (TWIN_P)",
    "behaviour that depends on CPython handing a freed object's address to the next object of the same size is reproduced "
    "because nothing but the code under test and the consumer allocates between two deliveries; a residual dependence on the "
    "heap layout of the interpreter (about 1 decode in 1000) can make such a violation fail to replay, which the runner "
    "reports as a harness error, never as a violation",
]
LEVEL_NOTE = "input space sampled by seeded mutation of real encodings; not coverage-guided"

LABELS = [b"a", b"bb", b"example", b"com", b"org", b"x" * 63, b"_sip", b"_tcp", b"mail", b"0", b"ns1", b"y" * 40, b"Z"]
TYPES16 = sorted(dns.Message._recordTypes) + [0, 41, 251, 252, 255, 256, 0xFFFF, 0xC000, 0xC00C, 0x3FFF, 0x4000, 0x8000]
BYTEVALS = [0x00, 0xFF, 0xC0, 0xC1, 0x3F, 0x40, 0x80, 0x01, 0x0C, 0x7F]
# a field that carries a CODE is drawn from the code points defined for it (a decoder may branch on any of them) as well as
# from undefined and boundary values: the 16-bit error field of TSIG (RFC 8945 section 5.3: plain RCODEs and the extended
# ones 16 BADSIG, 17 BADKEY, 18 BADTIME, 22 BADTRUNC; 19..21, 23 belong to TKEY / cookies)
TSIG_ERRORS = [0] + list(range(16, 24)) + [1, 5, 9, 15, 255, 65535]


def _name(sim):
    """A name of 0..4 labels, or (as the names of one zone do) 0..2 new labels in front of a name used earlier in the
    run: shared suffixes are what the encoder turns into compression pointers, and chains of them (a pointer into a
    name that itself ends in a pointer) when the sharing is nested."""
    earlier = sim.c33_names
    if earlier and sim.draw_bool(0.4, "under_earlier_name"):
        base = sim.draw_choice(earlier, "earlier")
        n = sim.draw_int(0, 2, "nlabels")
        name = b".".join([sim.draw_choice(LABELS, "label") for _ in range(n)] + ([base] if base else []))
        sim.probe("name_under_earlier_name")
    else:
        n = sim.draw_int(0, 4, "nlabels")
        name = b".".join(sim.draw_choice(LABELS, "label") for _ in range(n))
    if name and len(name) < 150 and len(earlier) < 12:
        earlier.append(name)
    return name


def _blob(sim, hi):
    return sim.draw_blob(sim.draw_int(0, hi, "bloblen"))


def _record(sim):
    """A record instance of a tape-chosen type with tape-chosen field values."""
    k = sim.draw_int(0, 26, "rtype")
    N = lambda: _name(sim)
    i16 = lambda: sim.draw_choice([0, 1, 255, 256, 65535, 12345], "u16")
    if k == 0:
        return dns.Record_A(sim.draw_choice(["1.2.3.4", "0.0.0.0", "255.255.255.255"], "a"))
    if k <= 9:
        cls = [dns.Record_NS, dns.Record_MD, dns.Record_MF, dns.Record_CNAME, dns.Record_MB, dns.Record_MG,
               dns.Record_MR, dns.Record_PTR, dns.Record_DNAME][k - 1]
        return cls(N())
    if k == 10:
        return dns.Record_SOA(N(), N(), sim.draw_choice([0, 1, 2**32 - 1], "serial"), i16(), i16(), i16(), i16())
    if k == 11:
        return dns.Record_NULL(_blob(sim, 40))
    if k == 12:
        return dns.Record_WKS("10.0.0.1", sim.draw_choice([6, 17, 0, 255], "proto"), _blob(sim, 12))
    if k == 13:
        return dns.Record_AAAA(sim.draw_choice(["::1", "::", "fe80::1:2"], "aaaa"))
    if k == 14:
        pl = sim.draw_choice([0, 1, 8, 64, 127, 128], "prefixLen")
        return dns.Record_A6(pl, "::1:2:3", N())
    if k == 15:
        return dns.Record_SRV(i16(), i16(), i16(), N())
    if k == 16:
        return dns.Record_NAPTR(i16(), i16(), _blob(sim, 3), _blob(sim, 10), _blob(sim, 20), N())
    if k == 17:
        return dns.Record_AFSDB(i16(), N())
    if k == 18:
        return dns.Record_RP(N(), N())
    if k == 19:
        return dns.Record_HINFO(_blob(sim, 12), _blob(sim, 12))
    if k == 20:
        return dns.Record_MINFO(N(), N())
    if k == 21:
        return dns.Record_MX(i16(), N())
    if k == 22:
        return dns.Record_SSHFP(sim.draw_int(0, 4, "alg"), sim.draw_int(0, 3, "fpt"), _blob(sim, 32))
    if k == 23:
        return dns.Record_TXT(*[_blob(sim, 30) for _ in range(sim.draw_int(0, 3, "ntxt"))])
    if k == 24:
        return dns.Record_SPF(*[_blob(sim, 30) for _ in range(sim.draw_int(0, 2, "ntxt"))])
    if k == 25:
        err = sim.draw_choice(TSIG_ERRORS, "tsig_error")
        if 16 <= err < 24:
            sim.probe("tsig_extended_error_code")
        return dns.Record_TSIG(N(), sim.draw_choice([0, 1, 2**47], "time"), i16(), _blob(sim, 20), i16(), err, _blob(sim, 6))
    return dns.UnknownRecord(_blob(sim, 24))


def build_message(sim, mid):
    """A valid message from the real encoder (modulo the optional record-type confusion fault)."""
    m = dns.Message(mid, answer=sim.draw_int(0, 1, "qr"), opCode=sim.draw_choice([0, 1, 2, 4, 5, 15], "op"),
                    recDes=sim.draw_int(0, 1, "rd"), recAv=sim.draw_int(0, 1, "ra"), auth=sim.draw_int(0, 1, "aa"),
                    rCode=sim.draw_choice([0, 1, 2, 3, 5, 15], "rcode"), trunc=sim.draw_int(0, 1, "tc"))
    for _ in range(sim.draw_int(0, 2, "nq")):
        m.queries.append(dns.Query(_name(sim), sim.draw_choice(TYPES16[:30], "qtype"), sim.draw_choice([1, 3, 4, 255], "qcls")))
    kinds = []
    for section in (m.answers, m.authority, m.additional):
        for _ in range(sim.draw_weighted([(0, 3), (1, 3), (2, 2), (3, 1), (4, 1)], "nrr")):
            rec = _record(sim)
            t = rec.TYPE if getattr(rec, "TYPE", None) is not None else sim.draw_choice([41, 65280, 0, 255], "unktype")
            h = dns.RRHeader(_name(sim), t, sim.draw_choice([1, 3, 254, 255], "cls"), sim.draw_choice([0, 1, 3600, 2**31 - 1], "ttl"),
                             payload=None)
            h.payload = rec
            if sim.draw_bool(0.12, "retype"):
                # network fault: the 16-bit TYPE field is rewritten, so the RDATA reaches another record decoder
                h.type = sim.draw_choice(TYPES16, "newtype")
                sim.fault("type_confusion")
            kinds.append(type(rec).__name__[7:] or "Unknown")
            section.append(h)
    data = m.toStr()
    return data, kinds


def damage(sim, data, others):
    """Apply one tape-chosen network fault to a packet; returns (new bytes, name of the fault)."""
    b = bytearray(data)
    n = len(b)
    op = sim.draw_weighted([("setbyte", 4), ("bitflip", 3), ("truncate", 3), ("setword", 3), ("pointer", 5), ("counts", 2),
                            ("dupspan", 1), ("splice", 1), ("append", 1), ("delspan", 1)], "damage")
    if n == 0:
        return bytes(b), "none"
    if op == "setbyte":
        i = sim.draw_int(0, n - 1, "off")
        b[i] = sim.draw_choice(BYTEVALS, "val") if sim.draw_bool(0.6, "interesting") else sim.draw_int(0, 255, "val")
    elif op == "bitflip":
        i = sim.draw_int(0, n - 1, "off")
        b[i] ^= 1 << sim.draw_int(0, 7, "bit")
    elif op == "truncate":
        del b[sim.draw_int(0, n - 1, "at"):]
    elif op == "setword":
        if n >= 2:
            i = sim.draw_int(0, n - 2, "off")
            b[i:i + 2] = struct.pack("!H", sim.draw_choice(TYPES16, "word"))
    elif op == "pointer":
        if n >= 14:
            sites = [12] + [i for i in range(12, n - 1) if b[i] >= 0xC0]
            i = sim.draw_choice(sites, "site") if sim.draw_bool(0.8, "known_site") else sim.draw_int(12, n - 2, "site")
            tk = sim.draw_choice(["self", "other", "first", "forward", "end", "beyond", "header", "any", "chain"], "target")
            if tk == "self":
                t = i
            elif tk == "chain":
                # a tail of pointers leading into a cycle: site i -> s1 -> ... -> s(L-1) -> one of s0..s(L-1)
                # (closing on s0 is a plain cycle through the start, closing later gives a rho shape)
                chain = [i]
                for _ in range(sim.draw_int(1, 3, "chainlen")):
                    j = sim.draw_choice(sites, "hop") if sim.draw_bool(0.5, "known_hop") else sim.draw_int(12, n - 2, "hop")
                    if j not in chain and j - 1 not in chain and j + 1 not in chain:
                        chain.append(j)
                close = chain[sim.draw_int(0, len(chain) - 1, "close")]
                for a, nxt in zip(chain[1:], chain[2:] + [close]):
                    b[a] = 0xC0 | ((nxt >> 8) & 0x3F)
                    b[a + 1] = nxt & 0xFF
                t = chain[1] if len(chain) > 1 else close
                if close != i:
                    sim.probe("pointer_chain_rho")
            elif tk == "other":
                j = sim.draw_choice(sites, "site2")
                t = j
                if j + 1 < n and sim.draw_bool(0.7, "mutual"):   # two pointers naming each other
                    b[j] = 0xC0 | ((i >> 8) & 0x3F)
                    b[j + 1] = i & 0xFF
            elif tk == "first":
                t = 12
            elif tk == "forward":
                t = min(i + sim.draw_int(1, 6, "fwd"), 0x3FFF)
            elif tk == "end":
                t = n - 1
            elif tk == "beyond":
                t = min(n + sim.draw_int(0, 300, "past"), 0x3FFF)
            elif tk == "header":
                t = sim.draw_int(0, 11, "hdr")
            else:
                t = sim.draw_int(0, 0x3FFF, "t")
            b[i] = 0xC0 | ((t >> 8) & 0x3F)
            b[i + 1] = t & 0xFF
            op = "pointer-" + tk
    elif op == "counts":
        if n >= 12:
            f = sim.draw_int(2, 5, "field")
            b[2 * f:2 * f + 2] = struct.pack("!H", sim.draw_choice([65535, 256, 7, 1, 0], "count"))
    elif op == "dupspan":
        i = sim.draw_int(0, n - 1, "from")
        j = sim.draw_int(i, min(n, i + 64), "to")
        b[j:j] = b[i:j]
    elif op == "delspan":
        i = sim.draw_int(0, n - 1, "from")
        j = sim.draw_int(i, min(n, i + 16), "to")
        del b[i:j]
    elif op == "splice":
        o = sim.draw_choice(others, "other") if others else data
        if o:
            b = bytearray(bytes(b[:sim.draw_int(0, n, "cut1")]) + o[sim.draw_int(0, len(o), "cut2"):])
    elif op == "append":
        b += sim.draw_blob(sim.draw_int(1, 40, "extra"))
    sim.fault(op.split("-")[0])
    sim.state("damage:" + op)
    return bytes(b), op


class Controller:
    def __init__(self, keep=None):
        self.got = []
        self.keep = keep

    def messageReceived(self, m, proto, addr=None):
        self.got.append(m.id)
        if self.keep is not None:
            self.keep.append(m)

    def connectionMade(self, proto):
        pass

    def connectionLost(self, proto):
        pass


class RecTransport:
    """UDP or TCP transport stand-in: records the sizes of what is written."""

    def __init__(self):
        self.sizes = []

    def write(self, data, addr=None):
        self.sizes.append(len(data))

    def loseConnection(self):
        pass

    def stopListening(self):
        pass


class FrameMirror:
    """Independent model of RFC 1035 4.2.2 TCP framing, used only to *name* the state in which the stream is:
    feed() reports whether a delivery leaves exactly one byte of a two-byte length prefix buffered."""

    def __init__(self):
        self.buf = b""
        self.length = None

    def feed(self, chunk, commit=True):
        buf, length = self.buf + chunk, self.length
        hazard = False
        while buf:
            if length is None:
                if len(buf) < 2:
                    hazard = True
                    break
                length = struct.unpack("!H", buf[:2])[0]
                buf = buf[2:]
            if len(buf) >= length:
                buf = buf[length:]
                length = None
            else:
                break
        if commit:
            self.buf, self.length = buf, length
        return hazard


ALLOWED = (EOFError, ValueError)
WARMUP = b"\x00\x00\x00\x00\x00\x01\x00\x00\x00\x00\x00\x00\x01a\x00\x00\x01\x00\x01"   # a plain query for "a" IN A, no compression


def _answered(result, fired, kept):
    fired.append(type(result).__name__)
    if kept is not None:
        kept.append(result)
# dev-time: VERIF_C33_AVOID=1 keeps every run away from the split-length-prefix finding (genuine defect of the tree as first examined,
# REPAIRED in /repo 58b11d2; by default the precondition is kept out of 10% of the runs only) so that mutant runs on a tree without the
# repair see past it
ALWAYS_AVOID = os.environ.get("VERIF_C33_AVOID", "0") == "1"


def _traffic(sim, valid, packets):
    """The order in which messages reach one long-lived decoder / protocol instance: every (possibly damaged) packet, in
    some runs preceded by an intact message (its own original - same layout, same name offsets - or another one of the run)
    and in some runs delivered twice (datagram duplication)."""
    seq = []
    for i, data in enumerate(packets):
        if sim.draw_bool(0.4, "intact_first"):
            j = i if sim.draw_bool(0.75, "own_original") else sim.draw_int(0, len(valid) - 1, "which")
            seq.append(("v%d" % j, valid[j]))
            if valid[j] != data:
                sim.fault("intact_then_tampered")
        seq.append(("p%d" % i, data))
        if sim.draw_bool(0.12, "duplicate"):
            seq.append(("p%d" % i, data))
            sim.fault("duplicate_delivery")
    return seq


def run(sim):
    npk = sim.draw_int(1, 3, "npackets")
    avoid_split_prefix = sim.draw_bool(0.1, "avoid_split_prefix") or ALWAYS_AVOID
    pend_udp = sim.draw_bool(0.3, "pending_udp_query")
    pend_tcp = sim.draw_bool(0.3, "pending_tcp_query")
    # what the consumer does with a decoded message: drop it at once, or keep it (a cache, a pending-answer table) for
    # the rest of the run - decides which objects die between two decodes
    retain = sim.draw_bool(0.5, "retain_messages")
    kept = [] if retain else None
    sim.config = {"npackets": npk, "avoid_split_prefix": avoid_split_prefix, "pending_udp": pend_udp, "pending_tcp": pend_tcp,
                  "retain": retain}

    # Run/stage isolation: workers are warm interpreters, so whatever the decoder remembers about "the buffer decoded
    # last" would otherwise refer to a buffer of the PREVIOUS run (not replayable), and between two stages the harness
    # logs (a replay keeps those lines, a search run does not).  One decode of a fixed plain query from a buffer that
    # stays alive for the whole run, at the start of the run and of every stage, puts that memory into a state that is a
    # function of this stage's deliveries alone.
    warm = BytesIO(WARMUP)

    def isolate():
        warm.seek(0)
        dns.Message().decode(warm)

    isolate()

    # ---------------------------------------------------------------- inputs
    sim.c33_names = []
    ids = [sim.draw_choice([0, 1, 0x1234, 0xFFFF, 77], "id") for _ in range(npk)]
    valid = []
    for i in range(npk):
        data, kinds = build_message(sim, ids[i])
        sim.event("built", i, len(data), *kinds)
        valid.append(data)
    packets = []
    ndamage = 0
    for i in range(npk):
        data = valid[i]
        for _ in range(sim.draw_weighted([(1, 4), (0, 2), (2, 3), (3, 1), (4, 1)], "ndamage")):
            data, op = damage(sim, data, valid)
            ndamage += 1
            sim.event("damage", i, op, len(data))
        packets.append(data)
    traffic = _traffic(sim, valid, packets)
    sim.event("traffic", *[tag for tag, _ in traffic])

    # Inside the three delivery loops below the harness does NO bookkeeping (no sim.event/probe/state): outcomes are
    # collected and logged after the loop.  Between two decodes only the code under test and the consumer allocate and
    # free, exactly as in a reactor that reads datagram after datagram - so behaviour that depends on which objects died
    # in between (object identities being handed out again) is the same in a search run and in its replay, which keeps a trace.

    # ---------------------------------------------------------------- (1) the decoder itself
    sim.event("stage", "fromStr")
    isolate()
    outcomes = []
    for tag, data in traffic:
        m = dns.Message()
        try:
            m.fromStr(data)
        except ALLOWED as e:
            outcomes.append(type(e).__name__)
            continue
        except Exception as e:
            sim.fail("fromStr-raised", type(e).__name__,
                     "Message.fromStr raised %s: %s on %d-byte packet %s" % (type(e).__name__, str(e)[:120], len(data), data.hex()[:400]))
        outcomes.append(m)
        if kept is not None:
            kept.append(m)
    prev = ""
    for (tag, _), m in zip(traffic, outcomes):
        if isinstance(m, str):
            sim.event("fromStr", tag, m)
            sim.probe("rejected_" + m)
            if prev.startswith("v"):
                sim.probe("rejected_right_after_intact")
        else:
            sim.event("fromStr", tag, "message")
            sim.probe("decoded")
            sim.state("decoded:%d/%d/%d/%d" % (min(len(m.queries), 3), min(len(m.answers), 3), min(len(m.authority), 3), min(len(m.additional), 3)))
        prev = tag
    del outcomes, m

    # ---------------------------------------------------------------- (2) UDP protocol
    sim.event("stage", "udp")
    isolate()
    ctl = Controller(kept)
    udp = dns.DNSDatagramProtocol(ctl, reactor=sim.clock)
    udp.makeConnection(RecTransport())
    fired = []
    if pend_udp:
        d = udp.query(("10.0.0.9", 53), [dns.Query(b"example.com", dns.A, dns.IN)], timeout=10, id=ids[0])
        d.addBoth(_answered, fired, kept)
    for tag, data in traffic:
        try:
            udp.datagramReceived(data, ("10.0.0.9", 53))
        except Exception as e:
            sim.fail("udp-datagramReceived-raised", type(e).__name__,
                     "datagramReceived raised %s: %s on packet %s" % (type(e).__name__, str(e)[:120], data.hex()[:400]))
    sim.event("udp", "controller", len(ctl.got), "fired", *fired)
    if fired:
        sim.probe("udp_pending_query_answered")
    for dc in sim.clock.getDelayedCalls():
        dc.cancel()

    # ---------------------------------------------------------------- (3) TCP protocol
    sim.event("stage", "tcp")
    isolate()
    ctl2 = Controller(kept)
    tcp = dns.DNSProtocol(ctl2, reactor=sim.clock)
    tcp.makeConnection(RecTransport())
    fired2 = []
    if pend_tcp:
        old = dns.randomSource
        dns.randomSource = lambda: ids[0]
        try:
            d = tcp.query([dns.Query(b"example.com", dns.A, dns.IN)], timeout=60)
        finally:
            dns.randomSource = old
        d.addBoth(_answered, fired2, kept)
    stream = bytearray()
    bounds = []
    for tag, data in traffic:
        ln = len(data) & 0xFFFF
        data = data[:0xFFFF]
        if sim.draw_bool(0.15, "bad_prefix"):
            # length-field fault on the TCP frame itself
            ln = sim.draw_choice([0, 1, max(ln - 1, 0), ln + 1, min(2 * ln, 0xFFFF), 0xFFFF, 11, 12], "prefix")
            sim.fault("frame_length")
        stream += struct.pack("!H", ln) + data
        bounds.append(len(stream))
    if sim.draw_bool(0.15, "stream_truncated"):
        del stream[sim.draw_int(0, len(stream), "at"):]
        sim.fault("stream_truncated")
    from detsim import net

    pieces = net.cut(sim, bytes(stream), boundaries=[0, 1, 2] + bounds + [b + 1 for b in bounds] + [b + 2 for b in bounds])
    mirror = FrameMirror()
    deliveries = []
    k = 0
    while k < len(pieces):
        piece = pieces[k]
        k += 1
        if avoid_split_prefix and mirror.feed(piece, commit=False):
            # keep away from the precondition of the length-prefix defect (REPAIRED in /repo 58b11d2): never leave exactly
            # one byte of a length prefix buffered (borrow the next byte, or hold back the last one)
            if k < len(pieces):
                piece += pieces[k][:1]
                pieces[k] = pieces[k][1:]
                if not pieces[k]:
                    del pieces[k]
            else:
                piece = piece[:-1]
            deliveries.append(-1)
            if not piece:
                continue
        hazard = mirror.feed(piece)
        deliveries.append(len(piece))
        try:
            tcp.dataReceived(piece)
        except ALLOWED as e:
            deliveries.append(type(e).__name__)
            break   # the transport logs the error and drops the connection
        except Exception as e:
            w = type(e).__name__ + (":one-byte-of-length-prefix-buffered" if hazard else "")
            sim.fail("tcp-dataReceived-raised", w,
                     "DNSProtocol.dataReceived raised %s: %s (delivery of %d bytes, %d bytes of a length prefix buffered: %s)"
                     % (type(e).__name__, str(e)[:120], len(piece), 1 if hazard else 0, hazard))
    for x in deliveries:
        if x == -1:
            sim.probe("split_prefix_avoided")
        elif isinstance(x, int):
            sim.event("tcp", "deliver", x)
        else:
            sim.event("tcp", "malformed", x)
            sim.probe("tcp_malformed_" + x)
    sim.event("tcp", "controller", len(ctl2.got), "fired", *fired2)
    if fired2:
        sim.probe("tcp_pending_query_answered")
    for dc in sim.clock.getDelayedCalls():
        dc.cancel()
    del warm
    if kept:
        sim.probe("consumer_retained_messages", len(kept))
    sim.nontrivial = bool(ndamage or sim.faults.get("segmentation") or sim.faults.get("type_confusion"))


# Sensitivity (tools/mutate.py C33 --sub src/twisted/names/dns.py ..., run with VERIF_C33_AVOID=1 so that the
# genuine split-length-prefix finding - at that time not yet repaired, since REPAIRED in /repo 58b11d2 - did not answer for the mutant):
MUTANTS = [
    "Name.decode: `if new_off in visited` -> `if False` (no loop check) -> CAUGHT (terminates:watchdog)",
    "Name.decode: `visited.add(new_off)` removed -> CAUGHT (terminates:watchdog)",
    "readPrecisely: never raises EOFError (short reads reach struct.unpack/ord) -> CAUGHT (fromStr-raised:error / fromStr-raised:TypeError)",
    "Charstr.decode: `ord(strio.read(1))` instead of readPrecisely -> CAUGHT (fromStr-raised:TypeError)",
    "DNSDatagramProtocol.datagramReceived: ValueError/BaseException handlers narrowed to KeyError -> CAUGHT (udp-datagramReceived-raised:ValueError)",
    "seeded C33-visited-only-first (only the first jump target is remembered: rho-shaped pointer chains spin) -> CAUGHT "
    "(terminates:watchdog; about 1 run in 330 since the pointer-chain operator and nested names, 1 in 12000 before)",
    "seeded C33-r4a (Name.decode skips the loop check for pointer targets remembered as terminating 'in this buffer', the buffer being "
    "recognised by id(strio): an intact compressed message followed by a tampered copy whose cycle passes through one of its name "
    "offsets, with the first buffer's address handed to the second) -> CAUGHT (terminates:watchdog; needs the intact-then-tampered "
    "traffic; about 1 run in 120)",
    "Record_TSIG.decode: error == EBADTIME makes it unpack the other data as a 48-bit time whatever its length (seeded C33-r6b) -> "
    "CAUGHT in the quick tier (fromStr-raised:error) since the TSIG error field is drawn from its defined code points; before, only "
    "a byte fault landing 18 on that field reached the branch (thorough tier)",
    "same change with the buffer recognised by its length instead of its address (intact message, then a same-length tampered copy) -> CAUGHT (terminates:watchdog)",
]
