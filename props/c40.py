"""C40 — SMTP transfers message bodies transparently.

Engine E3 (net): a real smtp.SMTPClient (subclass supplying envelope and a file
holding the body) talks to a real smtp.SMTP / smtp.ESMTP server with a recording
IMessageDelivery / IMessageSMTP over detsim.net.Link.  basic.FileSender (the
pull producer SMTPClient uses for the body) reads the file in CHUNK_SIZE pieces;
CHUNK_SIZE is a per-run knob from 1 byte up.  The tape chooses the bodies (lines
rich in leading dots, lone "." lines, empty lines, header-looking lines, long
lines), the chunk size and every network event (segmentation both ways).

Oracle (end-to-end, written from RFC 5321 section 4.5.2 and the statement):
  * the lines handed to the server-side message == body lines after the server's
    documented header handling (Received header first if the delivery gives one;
    one blank line inserted if the first body line is non-empty and has no ':');
  * end-of-message is signalled exactly once per message and only after the
    client has read its file to EOF and sent its terminator;
  * the command lines the server executed are exactly the command lines the
    client sent with sendLine (nothing from a body became a command);
  * every message is reported to the client as sent with a 250 (a message refused by the server-side message object:
    with that object's refusal code);
  * the server sends no reply between its 354 and the client's terminator (the transfer ends only at the terminator).

A mismatch whose first divergence is a body line that starts with '.' and sits
at body offset 0 or at a FileSender chunk boundary gets its own signature
(`leading-dot-not-stuffed:body-start|chunk-start`): that is the defect DESIGN §8
predicts for SMTPClient.transformChunk (genuine, REPAIRED in /repo e83a6d0).  In
10% of the runs the body generator still avoids that precondition (knob
"avoid_boundary_dots", kept for dev-time comparison); the others let it in.

Two further families (round 4):
  * refusing message objects: with a small probability per DATA transaction one recipient's IMessage.lineReceived raises
    SMTPServerError (the documented way to refuse data, e.g. a size limit) at a tape-chosen line of what it is handed -
    first, middle or last.  The client cannot know and keeps streaming the body (which may contain command-looking lines):
    the server must go on treating it as data up to the client's terminator and only then answer (with the refusal code);
    the commands it executed are still exactly the client's, a following message on the same connection goes through
    normally, the refused message object is never completed and saw only a prefix of the body.
  * overlapping sessions: in ~30 % of the runs a SECOND, independent client/server pair (own link, bodies, read-chunk size,
    refusal plan, recorders) runs at the same time; the tape picks before every network event which pair moves, so FileSender
    reads, deliveries and replies of the two alternate and their DATA transfers overlap.  Both sessions are judged by the same
    oracle: one connection's transfer must not depend on what another connection is doing.

Two further families (round 5):
  * who pulls first: per session (p=0.5) the client's transport asks a pull producer for its first chunk synchronously from
    inside registerProducer() - what abstract.FileDescriptor (every real TCP/TLS transport) and twisted.protocols.loopback do -
    instead of leaving every pull to the scheduler (what in-memory test transports do).  The first piece of the body is then
    read and transformed while the client is still inside the function that started the transfer (detsim.net.SimTransport
    pull_on_register).  Same oracle.
  * time passes during the session: in 30 % of the runs the idle timeouts of server (SMTP.timeout) and client
    (SMTPClient.timeout) are tape-chosen and run on the simulated clock, and before every network event a tape-chosen amount
    of simulated time passes (slow link, throttled sender), cut so that no peer is ever idle for 3/4 of its timeout: "idle" is
    judged on the wire and the file (no complete line delivered to the peer; for the client also: no piece of the body read
    from its file), not by asking the protocols.  A body may thus take several times the idle timeout as a whole while lines
    keep arriving.  Same oracle: the transfer ends only at the client's terminator - a peer that gives up in the middle of a
    body that is still flowing shows up as a reply before the terminator / an error reply / truncated body / missing 250.

Three further families (round 6), each a liberty the environment of ONE session takes (knobs DROP_P, SYNC_LINK_P/SYNC_REENTER_P,
PULL_IN_WRITE_P; all off in most sessions):
  * connection loss: at a tape-chosen point (mostly: so many network events after a DATA transaction began, otherwise anywhere in the
    session) the network still hands the server 0-3 or all of the bytes in flight and then both peers lose the connection (who notices
    first and cleanly-or-not tape-chosen).  The stream the server was given thus ends at ANY byte: inside a line, between CR and LF, right
    behind the dot that begins a (stuffed) body line, behind the whole body but before the terminator, inside the terminator.  The oracle
    for such a session is what the statement still says about it: every server-side message holds a prefix of the expected lines; a
    message is completed (eomReceived) only if the client's terminator had been handed to the server - judged on the wire: the bytes
    delivered to the server reach the end of that DATA section of the client's stream - and then holds exactly the body; the commands
    executed are a prefix of the client's; no reply inside a body; error replies / sentMail calls are a prefix of the expected ones.
  * synchronous pipe: the link is detsim.net.SyncLink - write() hands the bytes to the peer protocol at once (in tape-chosen pieces,
    whole or bytewise), so the peers' reactions NEST: the server's reply to the terminator reaches the client from inside the server's
    handling of the terminator line, the client's next command (RSET, the next MAIL/RCPT/DATA, QUIT) is written from inside that, and -
    in SYNC_REENTER_P of these sessions - handed to the server at once as well, whenever that keeps the stream order (the server has
    begun to handle the last line of everything it was given so far: Session._may_reenter).  The second message of a session may thus
    begin, up to its first body piece, inside the server's call that ended the first one.  Same oracle.
  * pull from inside write(): the client's transport asks the body producer for the next chunk as soon as it has taken one, from inside
    write(), nested 1, 2, 6 or 40 deep (a consumer that drains as fast as it is fed; web.static's producers document "be prepared for a
    re-entrant call").  The end of the file may then be read while earlier resumeProducing() calls are still on the stack.  Same oracle.
"""
import io
import traceback

from zope.interface import implementer

from twisted.internet import defer
from twisted.mail import smtp
from twisted.protocols import basic
from detsim import net

ID = "C40"
ENGINE = "net"
LEVEL = "exploration"
TECHNIQUE = ("deterministic simulation: real SMTPClient <-> real SMTP/ESMTP over a simulated link, seeded bodies, "
             "FileSender chunk size and wire segmentation; end-to-end line oracle")
QUICK_RUNS = 56000
TWIN_P = 0.08   # this share of the runs drives two independent instances of the scenario one after the other (detsim.runner._run_scenario)
BATCH = 250
RUN_WALL_LIMIT_S = 120   # runs take milliseconds; generous so that an overloaded host is not mistaken for a hang
COMPONENTS = {"real": ["twisted.mail.smtp.SMTPClient (transformChunk, finishedFileTransfer, smtpState_*)",
                       "twisted.mail.smtp.SMTP / ESMTP (state_COMMAND, dataLineReceived)",
                       "twisted.protocols.basic.FileSender", "twisted.protocols.basic.LineReceiver/LineOnlyReceiver"],
              "stub": ["TCP transport, delivery segmentation and pull-producer scheduling (detsim.net.Link; first pull optionally from inside registerProducer; "
                       "optionally: connection loss at a tape-chosen point, a synchronous in-memory pipe (detsim.net.SyncLink) as the link, further pulls from inside write())",
                       "reactor time for both peers' idle timeouts (detsim.clock.SimClock via TimeoutMixin.callLater)",
                       "IMessageDelivery/IMessageSMTP recorder (optionally refusing data at a tape-chosen line)",
                       "message file (BytesIO recording EOF, at most its session's chunk size per read)"]}
RULE = ("run = one SMTP session of 1-2 messages, each body 1-12 LF-terminated lines drawn from a dot-rich grammar (with command-looking lines), "
        "read-chunk size drawn from {16384,1,2,3,4,5,7,8,16,64}, all network events tape-chosen; per DATA transaction p=0.15 one recipient's message "
        "object refuses the data (SMTPServerError) at a tape-chosen line; in 30 % of the runs a second independent client/server pair with its own "
        "bodies/chunk size runs concurrently, the tape choosing before each event which pair moves (start offset 0-100 events); "
        "per session p=0.5 the client's transport pulls the first body chunk from inside registerProducer(); in 30 % of the runs server/client idle "
        "timeouts are drawn from {600,30,8} / {none,600,20} s and before each event 0, 1/16, 1/4 or 1/2 of the smallest timeout passes on the simulated "
        "clock, cut so that no peer is idle (no complete line delivered to it, no body piece read) for 3/4 of its timeout; "
        "per session p=0.15 the connection is lost (3:1 a drawn number of events {0..400} after a drawn DATA transaction began : anywhere; 0-3 or all bytes in flight "
        "still reach the server; who notices first and cleanly-or-not drawn) and the session is judged by the truncated-session oracle; per session p=0.1 the link is a "
        "synchronous pipe (pieces mixed/whole/bytewise; in half of them writes towards a protocol that is reacting to the end of what it was given are handed over at "
        "once, re-entering it); per session p=0.1 the client's transport pulls the next chunk from inside write(), nested up to 1/2/6/40 deep; "
        "non-trivial = some body line starts with '.' and (a body was read in more than one chunk or the wire was segmented)")
ASSUMPTIONS = ["bodies are non-empty sequences of LF-terminated lines without CR, each shorter than the server's line limit (<= 300 bytes here)",
               "server delivery accepts every sender and recipient",
               "time: idle timeouts are on the simulated clock; time passes only between network events and never so much that a peer has gone "
               "3/4 of its idle timeout without a complete line reaching it (client: or without a non-empty read of the message file, the documented "
               "'progress is being made sending the message body'); under that pacing no timeout may end a session, however long a body takes as a "
               "whole (a partial line trickling in does not count as activity, so nothing is demanded of a peer that times such a sender out)",
               "a transport may ask a pull producer for data from inside registerProducer() (IConsumer allows it; FileDescriptor does it)",
               "a message object refuses data only by raising SMTPServerError from lineReceived on a body-stage line (never on the Received header, "
               "which is handed over before the 354); for a refused transaction the oracle demands: commands executed == commands sent, no reply before "
               "the client's terminator, the refusal code as the only error reply and as the client's result, message objects saw a prefix of the body and "
               "the refusing one is never completed (nothing about connectionLost counts or co-recipients being completed or not)",
               "the two concurrent sessions share nothing but the process (classes, module state) and the simulated clock; each has its own link and file",
               "connection loss: both peers are told (connectionLost) at the same instant, after the server was handed a tape-chosen part of what was in flight; "
               "for such a session nothing is demanded about IMessage.connectionLost calls, about the client's reaction, or about messages the loss left incomplete "
               "beyond: lines handed over are a prefix of the body, no eomReceived unless the whole DATA section incl. the terminator line reached the server",
               "a transport may hand written bytes to the peer protocol from inside write() (in-memory pipes, test doubles, in-process relays do); it keeps each direction "
               "a FIFO: bytes towards a protocol that is inside dataReceived are handed over at once only when that protocol has begun handling the last line of all "
               "it was given (nothing unconsumed), otherwise after the running call returns",
               "a consumer may call resumeProducing() of its pull producer from inside write() (IConsumer/IPullProducer do not forbid it); nesting is bounded (<= 40)"]

CHUNKS = [2 ** 14, 1, 2, 3, 4, 5, 7, 8, 16, 64]
# round 6 knobs (module-level constants; shares of the sessions; 0 switches a family off)
# The last two families each met a genuine defect of the tree as first examined in round 6, both REPAIRED in /repo (99f3a0f, 785db9d; see
# MUTANTS, 'unfixed tree'): SYNC_LINK_P x SYNC_REENTER_P is the precondition of `del self.__messages` running after the reply in
# SMTP.dataLineReceived (second message of a session), PULL_IN_WRITE_P that of FileSender.lastSent being assigned after consumer.write().
# The shares below are the mix of the families (not avoidance knobs); 0 switches a family off and is only for dev-time comparison.
DROP_P = 0.15            # the connection is lost at a tape-chosen point (mostly inside a body)
SYNC_LINK_P = 0.1        # the link is a synchronous in-memory pipe (detsim.net.SyncLink): write() hands the bytes to the peer at once
SYNC_REENTER_P = 0.5     # ... of those: the pipe hands bytes to a protocol that is still inside dataReceived when that keeps the stream order
PULL_IN_WRITE_P = 0.1    # the client's transport asks the body producer for the next chunk from inside write()
TEXT = b"ab.:. X-\tz\xe9"


# ------------------------------------------------------------------ reference

def expected_lines(body_lines, hdr):
    """What the server-side message must see (statement + SMTP.dataLineReceived doc comment)."""
    out = [hdr] if hdr else []
    if body_lines and body_lines[0] != b"" and b":" not in body_lines[0]:
        out.append(b"")        # blank line between the Received header and a header-less message
    return out, out + list(body_lines)


def wire_encoding(body_lines):
    """RFC 5321 4.5.2 encoding of the body + terminator."""
    out = bytearray()
    for j, l in enumerate(body_lines):
        if l[:1] == b".":
            out += b"."
        out += l + b"\r\n"
    return bytes(out + b".\r\n")


def diagnose(body_lines, chunk, wire):
    """Recognise the predicted defect on the client's wire: up to the first
    dot-line that starts at body offset 0 / at a FileSender chunk boundary the
    DATA section equals the reference encoding, and that line went out without
    its extra dot.  (Only the first such line is examined: after it the session
    is out of step and commands may interleave with body bytes.)
    Returns "body-start" / "chunk-start" / None."""
    off = 0
    for j, l in enumerate(body_lines):
        if l[:1] == b"." and off % chunk == 0:
            ref = wire_encoding(body_lines[:j])[:-3]
            s = len(ref)
            if wire[:s] == ref and wire[s:s + len(l) + 2] == l + b"\r\n":
                return "body-start" if off == 0 else "chunk-start"
            return None
        off += len(l) + 1
    return None


# ------------------------------------------------------------------ recorders

class RecFile(io.BytesIO):
    """Message file: records EOF; hands out at most `size` bytes per read (a file may always return fewer bytes than asked for)."""
    eof = False
    size = None
    progress = 0       # reads that returned data (the client is making progress sending the body)

    def read(self, n=-1):
        if self.size is not None and (n is None or n < 0 or n > self.size):
            n = self.size
        d = io.BytesIO.read(self, n)
        if not d:
            self.eof = True
        else:
            self.progress += 1
        return d


@implementer(smtp.IMessage)
class Msg:
    def __init__(self, h, idx, refuse=None):
        self.h, self.idx = h, idx
        self.lines = []
        self.eom = []          # (file_eof, terminators_sent) at each eomReceived
        self.lost = 0
        self.refuse = refuse   # None | (number of lines accepted before refusing, code): the documented way to refuse data
        self.refused = 0

    def lineReceived(self, line):
        if self.refuse is not None and len(self.lines) >= self.refuse[0]:
            if not self.refused:
                self.h.sim.fault("message_refused_midbody")
                self.h.sim.event(self.h.name, "refuse", self.idx, len(self.lines))
            self.refused += 1
            raise smtp.SMTPServerError(self.refuse[1], b"Refused by the message object")
        self.lines.append(line)

    def eomReceived(self):
        c = self.h.client
        f = c.files[self.idx] if self.idx < len(c.files) else None
        self.eom.append((bool(f is not None and f.eof), c.terminators))
        self.h.sim.event(self.h.name, "eom", self.idx, len(self.lines))
        return defer.succeed(None)

    def connectionLost(self):
        self.lost += 1


@implementer(smtp.IMessageDelivery)
class Delivery:
    def __init__(self, h, hdr):
        self.h, self.hdr = h, hdr

    def receivedHeader(self, helo, origin, recipients):
        return self.hdr

    def validateFrom(self, helo, origin):
        return origin

    def validateTo(self, user):
        h = self.h

        def make():
            k = h.data_count
            ordinal = len([m for m in h.msgs if m.idx == k])
            plan = h.refuse[k] if k < len(h.refuse) else None
            m = Msg(h, k, (plan["at"], plan["code"]) if plan and plan["who"] == ordinal else None)
            h.msgs.append(m)
            return m
        return make


def make_server(base, h, hdr):
    class Server(base):
        noisy = False

        def state_COMMAND(self, line):
            h.server_cmds.append(line)
            return base.state_COMMAND(self, line)

        def lineReceived(self, line):
            h.lines_in["B"] += 1
            return base.lineReceived(self, line)

        def sendCode(self, code, message=b""):
            h.codes.append(code)
            # (DATA transactions begun, terminators the client has sent so far) when this reply was produced
            h.code_ctx.append((code, h.data_count, h.client.terminators))
            if code == 354:
                # a DATA transaction begins with the server's 354 (counted before the reply leaves: over a synchronous link the
                # client's reaction, up to whole body pieces, runs inside this very call)
                h.data_count += 1
            return base.sendCode(self, code, message)

    if base is smtp.ESMTP:
        s = Server()
        s.delivery = Delivery(h, hdr)
    else:
        s = Server(Delivery(h, hdr))
    s.host = b"mx.sim.example"
    s.callLater = lambda period, func: h.sim.clock.callLater(period, func)
    return s


class Client(smtp.SMTPClient):
    timeout = None
    debug = False

    def __init__(self, h, messages):
        smtp.SMTPClient.__init__(self, b"client.sim.example")
        self.h = h
        self.messages = list(messages)
        self.files = []
        self.sent = []
        self.cmds = []
        self.terminators = 0
        self.in_data = False
        self.data_span = []    # [start, end) of each DATA section in transport.written
        self.data_time = []    # [simulated time at getMailData, at the terminator] of each DATA section

    def lineReceived(self, line):
        self.h.lines_in["A"] += 1
        return smtp.SMTPClient.lineReceived(self, line)

    def sendLine(self, line):
        if self.in_data and line in (b".", b"\r\n."):
            self.terminators += 1
            self.in_data = False
            # recorded before the line leaves: over a synchronous link the rest of the session may run inside this call
            self.data_span[-1][1] = len(self.transport.written) + len(line) + 2
            self.data_time[-1][1] = self.h.sim.clock.seconds()
            return smtp.SMTPClient.sendLine(self, line)
        else:
            self.cmds.append(line)
        return smtp.SMTPClient.sendLine(self, line)

    def getMailFrom(self):
        if len(self.files) < len(self.messages):
            if self.files and getattr(self.h.link, "active", None) and self.h.link.active["B"]:
                self.h.sim.probe("sync_next_message_begun_inside_the_reply_to_a_terminator")
            return self.messages[len(self.files)][0]
        return None

    def getMailTo(self):
        return self.messages[len(self.files)][1]

    def getMailData(self):
        f = RecFile(self.messages[len(self.files)][2])
        f.size = self.h.chunk
        self.files.append(f)
        self.in_data = True
        self.data_span.append([len(self.transport.written), None])
        self.data_time.append([self.h.sim.clock.seconds(), None])
        return f

    def sentMail(self, code, resp, numOk, addresses, log):
        self.sent.append((code, numOk))
        self.h.sim.event(self.h.name, "sentMail", code, numOk)


# ------------------------------------------------------------------ workload

CMDLIKE = [b"QUIT", b"RSET", b"DATA", b"MAIL FROM:<evil@sim.example>", b"250 ok", b"RCPT TO:<victim@sim.example>", b"NOOP"]
REFUSAL_CODES = [552, 550, 451, 554]


def gen_line(sim):
    kind = sim.draw_weighted([("text", 4), ("dot", 3), ("dottext", 4), ("dotdot", 2), ("empty", 2), ("hdr", 1),
                              ("cmd", 2), ("dotcmd", 1), ("long", 1)], "linekind")
    if kind == "text":
        return sim.draw_bytes(sim.draw_int(1, 8, "len"), TEXT)
    if kind == "dot":
        return b"."
    if kind == "dottext":
        return b"." + sim.draw_bytes(sim.draw_int(1, 6, "len"), TEXT)
    if kind == "dotdot":
        return sim.draw_choice([b"..", b"...", b".. ."], "dd")
    if kind == "empty":
        return b""
    if kind == "hdr":
        return sim.draw_choice([b"Subject: x", b"X-A: .", b"a:b"], "hdr")
    if kind == "cmd":
        return sim.draw_choice(CMDLIKE, "cmd")
    if kind == "dotcmd":
        return sim.draw_choice([b".QUIT", b".RSET", b".DATA"], "dcmd")
    n = sim.draw_choice([17, 63, 64, 65, 129, 300], "longlen")
    return (sim.draw_bytes(4, TEXT) * (n // 4 + 1))[:n]


def gen_body(sim, chunk, avoid):
    n = sim.draw_int(1, 12, "nlines")
    lines = []
    off = 0
    for _ in range(n):
        l = gen_line(sim)
        if avoid and l[:1] == b"." and (off == 0 or off % chunk == 0):
            l = b"x" + l
        lines.append(l)
        off += len(l) + 1
    return lines


def gen_messages(sim, tag, chunk, avoid):
    nmsgs = sim.draw_weighted([(1, 3), (2, 1)], "nmsgs")
    messages = []
    for k in range(nmsgs):
        rcpts = [b"r%d@dest.example" % i for i in range(sim.draw_int(1, 2, "nrcpt"))]
        lines = gen_body(sim, chunk, avoid)
        body = b"".join(l + b"\n" for l in lines)
        messages.append((b"from%d@src.example" % k, rcpts, body, lines))
        sim.event(tag, "body", k, body)
    return messages


def gen_refusals(sim, messages, hdr):
    """Per DATA transaction: None, or which recipient's message object refuses, after how many accepted lines (counted in
    what the message object is handed, never inside the Received header: that one is delivered before the 354) and with which code."""
    plan = []
    for frm, rcpts, body, lines in messages:
        if not sim.draw_bool(0.15, "refuse"):
            plan.append(None)
            continue
        pre, exp = expected_lines(lines, hdr)
        first = 1 if hdr else 0
        plan.append({"who": sim.draw_int(0, len(rcpts) - 1, "refuser"),
                     "at": first + sim.draw_int(0, len(exp) - first - 1, "refuse_at"),
                     "code": sim.draw_choice(REFUSAL_CODES, "refuse_code")})
    return plan


SERVER_TIMEOUTS = [600, 30, 8]      # seconds; SMTP.timeout defaults to 600
CLIENT_TIMEOUTS = [None, 600, 20]   # SMTPClient.timeout defaults to None (no timeout checking)
PACE = [0, 1 / 16, 1 / 4, 1 / 2]    # time passing before a network event, as a share of the smallest idle timeout in the run
IDLE_FRAC = 0.75                    # no peer is ever left without a complete line / a body read for more than this share of its timeout


def pass_time(sim, sessions, live):
    """Simulated time passes between two network events: a slow link, a throttled sender.  The amount is tape-chosen and then cut
    so that no peer of a live session stays idle (see Session._note_activity) for IDLE_FRAC of its idle timeout or more: the
    connection is never idle from any peer's point of view, however long a whole body takes."""
    dt = sim.draw_choice(PACE, "pace")
    if not dt:
        return
    dt *= min(t for s in sessions for t in s.timeouts if t is not None)
    slack = min(x for x in (s.idle_slack(IDLE_FRAC) for s in live) if x is not None)
    if slack < dt:
        sim.probe("pace_cut_to_stay_below_idle_timeout")
        dt = slack
    if dt <= 0:
        return
    try:
        sim.clock.advance(dt)
    except Exception as e:      # a timer of the code under test raised: classified with the session's own exceptions
        tb = traceback.extract_tb(e.__traceback__)[-1]
        live[0].raised = (type(e).__name__, "%s: %s (in a timed call, at %s:%s %s)" % (type(e).__name__, str(e)[:200], tb.filename.split("/")[-1], tb.lineno, tb.name))
        sim.event("timer", "raised", type(e).__name__)
    sim.sim_time += dt
    sim.fault("time_passes_between_events")
    if any(s.client.in_data for s in live):
        sim.probe("time_passes_inside_body")


class PipeLink(net.SyncLink):
    """The synchronous pipe, with the scheduler's 'deliver' event (bytes left in flight, e.g. after a delivery raised) going through
    the same FIFO-keeping hand-over as the writes."""

    def do(self, kind, name, amount=None):
        if kind == "deliver":
            self.pump(name)
        else:
            net.SyncLink.do(self, kind, name, amount)


class Session:
    """One SMTPClient <-> SMTP/ESMTP pair on its own link, with its own bodies, read-chunk size, refusal plan, recorders and verdicts."""

    def __init__(self, sim, name, chunk, esmtp, hdr, messages, refuse, sync_pull=False, timeouts=None, env=None):
        self.sim, self.name = sim, name
        self.sync_pull, self.timeouts = sync_pull, timeouts
        self.chunk, self.esmtp, self.hdr, self.messages, self.refuse = chunk, esmtp, hdr, messages, refuse
        self.msgs, self.server_cmds, self.codes, self.code_ctx = [], [], [], []
        self.data_count = 0
        self.lines_in = {"A": 0, "B": 0}          # complete lines each protocol has begun to handle
        env = env or {}
        self.drop = env.get("drop")               # None | plan of a connection loss (gen_env)
        self.sync = env.get("sync")               # None | {"pieces", "reenter"}: the link is a synchronous in-memory pipe
        self.pull_in_write = env.get("pull_in_write") or 0   # the client's transport asks for the next chunk from inside write(), nested up to this deep
        self.pull_depth = 0
        self.dropped = False
        self._drop_base = None
        self.client = Client(self, [(m[0], m[1], m[2]) for m in messages])
        self.server = make_server(smtp.ESMTP if esmtp else smtp.SMTP, self, hdr)
        if self.sync:
            self.link = PipeLink(sim, self.client, self.server, pieces=self.sync["pieces"],
                                 reenter=self._may_reenter if self.sync["reenter"] else False)
        else:
            self.link = net.Link(sim, self.client, self.server)
        if self.pull_in_write:
            self._chained_on_write = self.link.a.on_write
            self.link.a.on_write = self._pull_from_inside_write
        # the client's transport asks a pull producer for its first chunk from inside registerProducer() (as abstract.FileDescriptor
        # and protocols.loopback do) or leaves every pull to the scheduler (as in-memory test transports do)
        self.link.a.pull_on_register = bool(sync_pull)
        # idle timeouts (server, client) on the simulated clock; None = as before (server default, never reached; client none)
        self.client.callLater = lambda period, func: sim.clock.callLater(period, func)
        if timeouts is not None:
            self.server.timeout, self.client.timeout = timeouts
        self.seen = {"A": [0, 0], "B": [0, 0]}    # per side: [bytes of link.delivered examined, complete lines among them]
        self.reads = 0
        self.last_active = {"A": 0.0, "B": 0.0}
        self.cap = 400 + 14 * sum(len(m[2]) for m in messages)
        self.steps = 0
        self.started = False
        self.finished = False
        self.raised = None

    @property
    def live(self):
        return self.started and not self.finished and self.raised is None and self.steps < self.cap

    def _guarded(self, fn):
        try:
            return fn()
        except Exception as e:      # classified in judge(), after the diagnosis of the predicted defect
            tb = traceback.extract_tb(e.__traceback__)[-1]
            self.raised = (type(e).__name__, "%s: %s (at %s:%s %s)" % (type(e).__name__, str(e)[:200], tb.filename.split("/")[-1], tb.lineno, tb.name))
            self.sim.event(self.name, "raised", self.raised[0])
            return None

    def connect(self):
        self.started = True
        self.last_active = {"A": self.sim.clock.seconds(), "B": self.sim.clock.seconds()}
        # over the synchronous pipe the server's greeting reaches the client from inside the server's makeConnection: the client is connected first
        self._guarded(lambda: self.link.connect(a_first=bool(self.sync)))
        if self.timeouts is not None:
            self._note_activity()     # over the synchronous pipe the opening dialogue has already happened

    def step(self):
        if self._drop_due():
            self._guarded(self._lose_connection)
            self.finished = True
            return
        self.steps += 1
        if self._guarded(self.link.step) is False:
            self.finished = True
        if self.timeouts is not None:
            self._note_activity()

    # ---- the environment's liberties ---------------------------------------------
    def _may_reenter(self, side, start, end):
        """Synchronous pipe: bytes written towards a protocol that is inside dataReceived may be handed over at once (re-entering it)
        only if that keeps the stream order, i.e. nothing of what it was given so far can be unconsumed: the stream handed to it so far
        (the running piece and whatever was handed over, nested, since) ends with a line end, and the protocol has begun to handle the
        last of those lines (it is reacting to the end of what it was given - the only place an SMTP peer that does not pipeline is
        ever answered).  This is what a pipe whose write() simply calls the peer's dataReceived does."""
        buf = self.link.delivered[side]
        ok = buf.endswith(b"\r\n") and self.lines_in[side] == buf.count(b"\r\n")
        if ok:
            self.sim.probe("sync_client_reentered_at_line_end" if side == "A" else "sync_server_reentered_at_line_end")
        return ok

    def _pull_from_inside_write(self, t, data):
        """A consumer that asks its pull producer for the next chunk as soon as it has taken one, from inside write() (bounded nesting)."""
        if self._chained_on_write is not None:
            self._chained_on_write(t, data)
        if t.producer is not None and not t.streaming and not t.disconnected and self.pull_depth < self.pull_in_write:
            self.pull_depth += 1
            self.sim.probe("pull_inside_write")
            if self.pull_depth >= 3:
                self.sim.probe("pull_inside_write_depth_ge_3")
            try:
                t.producer.resumeProducing()
            finally:
                self.pull_depth -= 1

    def _drop_due(self):
        d = self.drop
        if d is None or self.dropped:
            return False
        if d["phase"] == "anywhere":
            return self.steps >= d["after"]
        if self.data_count <= d["k"]:          # "body": so many events after the k-th DATA transaction began
            return False
        if self._drop_base is None:
            self._drop_base = self.steps
        return self.steps - self._drop_base >= d["after"]

    def _lose_connection(self):
        """Connection-loss fault: the network may still hand the server a few of the bytes in flight, then both peers lose the connection
        (tape-chosen who notices first, cleanly or not); everything else in flight is gone."""
        sim, link, d = self.sim, self.link, self.drop
        self.dropped = True
        q = link.flight["B"]
        if d["tail"] != 0 and q and link.b.reading and not link.b.disconnected:
            sim.probe("loss_after_a_last_partial_delivery")
            link.do("deliver", "B", d["tail"])
        got = link.delivered["B"]
        spans = self.client.data_span
        inside = bool(spans) and len(got) >= spans[-1][0] and (spans[-1][1] is None or len(got) < spans[-1][1]) and self.data_count == len(spans)
        rest = bytes(got).rsplit(b"\r\n", 1)[-1]
        if inside:
            sim.probe("loss_inside_body")
            if rest:
                sim.probe("loss_inside_body_with_partial_line_at_server")
            if rest in (b".", b".\r"):
                sim.probe("loss_inside_body_right_after_line_initial_dot")
            if spans[-1][1] is not None:
                sim.probe("loss_inside_body_terminator_sent_not_arrived")
        else:
            sim.probe("loss_outside_body")
        sim.event(self.name, "connection-lost", d["first"], d["clean"], len(got))
        link.drop(d["first"], clean=d["clean"])

    def _note_activity(self):
        """A peer is active (not idle) when a complete line reaches it; the client also when it reads a piece of the body from its
        file (SMTPClient.transformChunk: "as long as progress is being made sending the message body, the client will not time
        out").  Taken from the wire and the file, not from the protocols."""
        now = self.sim.clock.seconds()
        for side in ("A", "B"):
            buf = self.link.delivered[side]
            seen = self.seen[side]
            if len(buf) > seen[0]:
                n = buf.count(b"\n", seen[0])
                seen[0] = len(buf)
                if n:
                    seen[1] += n
                    self.last_active[side] = now
        reads = sum(f.progress for f in self.client.files)
        if reads != self.reads:
            self.reads = reads
            self.last_active["A"] = now

    def idle_slack(self, frac):
        """How much simulated time may pass now with both peers staying below `frac` of their idle timeouts."""
        if self.timeouts is None:
            return None
        now = self.sim.clock.seconds()
        slack = None
        for side, t in (("B", self.timeouts[0]), ("A", self.timeouts[1])):
            if t is None:
                continue
            room = frac * t - (now - self.last_active[side])
            slack = room if slack is None else min(slack, room)
        return slack

    # ---- oracle (recorded history, fixed order) --------------------------------
    def judge(self):
        sim, client, link, hdr, chunk, messages = self.sim, self.client, self.link, self.hdr, self.chunk, self.messages
        raised = self.raised
        nmsgs = len(messages)
        nrc = [len(m[1]) for m in messages]
        refuse = self.refuse
        # group recorded server messages per DATA transaction (one per recipient)
        per_data = {}
        for m in self.msgs:
            per_data.setdefault(m.idx, []).append(m)

        if self.dropped:
            return self._judge_truncated(per_data)

        # 1. the predicted defect gets its own signature: the end-to-end result is wrong
        #    AND the client's wire lacks exactly the dots of boundary lines
        for k, (frm, rcpts, body, lines) in enumerate(messages):
            if k >= len(client.data_span) or refuse[k]:
                continue
            wire = bytes(link.a.written[client.data_span[k][0]:])
            _, exp = expected_lines(lines, hdr)
            ms = per_data.get(k, [])
            if ms and all(m.lines == exp for m in ms):
                continue
            where = diagnose(lines, chunk, wire)
            if where:
                sim.fail("leading-dot-not-stuffed", where,
                         "chunk=%d body=%r DATA section on the wire=%r server message got %r" % (chunk, body, wire[:400], [m.lines for m in ms][:1]))

        sim.check("protocol-raised", raised is None, raised and raised[0], raised and raised[1])
        sim.check("session-completes", self.finished, "steps", "link %s still busy after %d steps" % (self.name, self.cap))
        sim.check("all-messages-accepted", sorted(per_data) == list(range(nmsgs)), "data-count",
                  "DATA transactions seen by server: %r expected %d" % (sorted(per_data), nmsgs))
        for k, (frm, rcpts, body, lines) in enumerate(messages):
            ms = per_data[k]
            sim.check("one-message-per-recipient", len(ms) == len(rcpts), "count", "msg %d: %d recorders for %d rcpts" % (k, len(ms), len(rcpts)))
            _, exp = expected_lines(lines, hdr)
            for j, m in enumerate(ms):
                if m.refused:
                    # the message object refused the data: whatever it (and its co-recipients) had been handed up to then is
                    # body content in order, and a refused message is never completed (it lacks lines of the body)
                    sim.check("refused-message-not-completed", not m.eom, "server-message",
                              lambda: "msg %d rcpt %d refused after %d lines, yet eomReceived x%d" % (k, j, len(m.lines), len(m.eom)))
                if refuse[k]:
                    sim.check("body-lines-prefix", m.lines == exp[:len(m.lines)], "refused-transaction",
                              lambda: "chunk=%d msg %d rcpt %d body=%r expected a prefix of %r got %r" % (chunk, k, j, body, exp, m.lines))
                    if not m.eom:
                        continue
                sim.check("body-lines-equal", m.lines == exp, "server-message",
                          lambda: "chunk=%d msg %d body=%r expected %r got %r" % (chunk, k, body, exp, m.lines))
                sim.check("eom-once", len(m.eom) == 1, "server-message", "eomReceived x%d" % len(m.eom))
                sim.check("ends-at-terminator", m.eom[0] == (True, k + 1), "server-message",
                          "eomReceived when file_eof=%r terminators_sent=%r (message %d)" % (m.eom[0][0], m.eom[0][1], k))
                if not refuse[k]:
                    sim.check("no-abort", m.lost == 0, "server-message", "IMessage.connectionLost x%d" % m.lost)
        sim.check("commands-are-clients", self.server_cmds == client.cmds, "server",
                  lambda: "server executed %r; client sent %r" % (self.server_cmds, client.cmds))
        datas = [c for c in self.server_cmds if c.strip().upper() == b"DATA"]
        sim.check("commands-shape", len(datas) == nmsgs and self.server_cmds[:1] == [b"HELO client.sim.example"]
                  and self.server_cmds[-1:] == [b"QUIT"], "server", lambda: "commands %r" % (self.server_cmds,))
        # the transfer ends only at the client's terminator: between the 354 of a DATA transaction and the client's "." the
        # server says nothing (in particular a refusal by the message object is reported only after the whole body was swallowed)
        early = [c for c in self.code_ctx if c[1] != c[2]]
        sim.check("reply-only-after-terminator", not early, "server",
                  lambda: "replies (code, DATA transactions begun, terminators sent by the client) %r" % (early[:4],))
        want_err = [r["code"] for r in refuse if r]
        sim.check("no-error-replies", [c for c in self.codes if not 200 <= c < 400] == want_err, "server",
                  lambda: "reply codes %r; error replies expected only for the refused transactions: %r" % (self.codes, want_err))
        want_sent = [(refuse[k]["code"] if refuse[k] else 250, n) for k, n in enumerate(nrc)]
        sim.check("client-told-sent", client.sent == want_sent, "client", "sentMail calls %r expected %r" % (client.sent, want_sent))
        sim.check("terminators", client.terminators == nmsgs, "client", "terminators sent %d" % client.terminators)
        sim.check("closed", link.a.disconnected and link.b.disconnected, "link", "a=%r b=%r" % (link.a.disconnected, link.b.disconnected))

        if self.timeouts is not None:
            for span in client.data_time:
                if span[1] is not None and span[1] - span[0] > self.timeouts[0]:
                    sim.probe("body_took_longer_than_server_idle_timeout")
                if span[1] is not None and self.timeouts[1] is not None and span[1] - span[0] > self.timeouts[1]:
                    sim.probe("body_took_longer_than_client_idle_timeout")
        for k, r in enumerate(refuse):
            if r:
                _, exp = expected_lines(messages[k][3], hdr)
                if r["at"] < len(exp) - 1:
                    sim.probe("refused_before_last_line")
                if any(l in CMDLIKE for l in exp[r["at"] + 1:]):
                    sim.probe("command_like_line_after_refusal")
                if k + 1 < nmsgs and not refuse[k + 1]:
                    sim.probe("message_accepted_after_refused_one")
                if len(messages[k][1]) > 1:
                    sim.probe("refusal_with_two_recipients")


    def _judge_truncated(self, per_data):
        """The connection was lost somewhere in the session.  What the statement still says: whatever a server-side message was handed is
        body content in order; a message is completed only if the client's terminator reached the server (and then it holds exactly the
        body); nothing but the client's commands was executed; no reply inside a body."""
        sim, client, link, hdr, chunk, messages, refuse = self.sim, self.client, self.link, self.hdr, self.chunk, self.messages, self.refuse
        raised = self.raised
        W = "lost-connection"
        sim.check("protocol-raised", raised is None, raised and raised[0] + "-" + W, raised and raised[1])
        srv_in = len(link.delivered["B"])
        sim.check("all-messages-accepted", all(k < len(messages) for k in per_data), W,
                  "DATA transactions seen by server: %r; the client has %d messages" % (sorted(per_data), len(messages)))
        for k in sorted(per_data):
            frm, rcpts, body, lines = messages[k]
            _, exp = expected_lines(lines, hdr)
            span = client.data_span[k] if k < len(client.data_span) else None
            arrived = span is not None and span[1] is not None and srv_in >= span[1]
            ms = per_data[k]
            sim.check("one-message-per-recipient", len(ms) <= len(rcpts), W, "msg %d: %d recorders for %d rcpts" % (k, len(ms), len(rcpts)))
            for j, m in enumerate(ms):
                sim.check("body-lines-prefix", m.lines == exp[:len(m.lines)], W,
                          lambda: "chunk=%d msg %d rcpt %d body=%r expected a prefix of %r got %r" % (chunk, k, j, body, exp, m.lines))
                if m.refused:
                    sim.check("refused-message-not-completed", not m.eom, W,
                              lambda: "msg %d rcpt %d refused after %d lines, yet eomReceived x%d" % (k, j, len(m.lines), len(m.eom)))
                if not m.eom:
                    sim.probe("message_left_incomplete_by_the_loss")
                    continue
                sim.check("ends-at-terminator", arrived and m.eom[0] == (True, k + 1), W,
                          lambda: "msg %d rcpt %d: eomReceived (file_eof, terminators sent)=%r although the server had been handed %d bytes of the client's "
                                  "stream and the DATA section incl. its terminator spans %r; message lines %r of %r"
                                  % (k, j, m.eom[0], srv_in, span, m.lines, exp))
                sim.check("body-lines-equal", m.lines == exp, W,
                          lambda: "chunk=%d msg %d body=%r expected %r got %r" % (chunk, k, body, exp, m.lines))
                sim.check("eom-once", len(m.eom) == 1, W, "eomReceived x%d" % len(m.eom))
        sim.check("commands-are-clients", self.server_cmds == client.cmds[:len(self.server_cmds)], W,
                  lambda: "server executed %r; client sent %r" % (self.server_cmds, client.cmds))
        early = [c for c in self.code_ctx if c[1] != c[2]]
        sim.check("reply-only-after-terminator", not early, W,
                  lambda: "replies (code, DATA transactions begun, terminators sent by the client) %r" % (early[:4],))
        want_err = [r["code"] for r in refuse if r]
        errs = [c for c in self.codes if not 200 <= c < 400]
        sim.check("no-error-replies", errs == want_err[:len(errs)], W,
                  lambda: "reply codes %r; error replies expected only for the refused transactions: %r" % (self.codes, want_err))
        want_sent = [(refuse[k]["code"] if refuse[k] else 250, len(m[1])) for k, m in enumerate(messages)]
        sim.check("client-told-sent", client.sent == want_sent[:len(client.sent)], W, "sentMail calls %r expected a prefix of %r" % (client.sent, want_sent))
        sim.check("closed", link.a.disconnected and link.b.disconnected, W, "a=%r b=%r" % (link.a.disconnected, link.b.disconnected))


DROP_AFTER = [0, 1, 2, 3, 5, 8, 13, 21, 34, 55, 89, 144, 233, 400]
PULL_DEPTHS = [1, 2, 6, 40]


def gen_env(sim, tag, nmsgs):
    """The liberties the environment of one session takes (all off in most sessions): a connection loss, a synchronous in-memory pipe
    as the link, a client transport that pulls the next chunk from inside write()."""
    env = {"drop": None, "sync": None, "pull_in_write": 0}
    if DROP_P > 0 and sim.draw_bool(DROP_P, "drop" + tag):
        env["drop"] = {"phase": sim.draw_weighted([("body", 3), ("anywhere", 1)], "drop_phase"),
                       "k": sim.draw_int(0, nmsgs - 1, "drop_msg"),
                       "after": sim.draw_choice(DROP_AFTER, "drop_after"),
                       "first": sim.draw_choice(["A", "B"], "drop_first"),
                       "clean": sim.draw_bool(0.5, "drop_clean"),
                       "tail": sim.draw_choice([0, 1, 2, 3, None], "drop_tail")}
    if SYNC_LINK_P > 0 and sim.draw_bool(SYNC_LINK_P, "sync_link" + tag):
        env["sync"] = {"pieces": sim.draw_choice(["mixed", "whole", "bytewise"], "sync_pieces"),
                       "reenter": SYNC_REENTER_P > 0 and sim.draw_bool(SYNC_REENTER_P, "sync_reenter")}
    if PULL_IN_WRITE_P > 0 and sim.draw_bool(PULL_IN_WRITE_P, "pull_in_write" + tag):
        env["pull_in_write"] = sim.draw_choice(PULL_DEPTHS, "pull_in_write_depth")
    return env


def run(sim):
    chunk = sim.draw_choice(CHUNKS, "chunk")
    avoid = sim.draw_bool(0.1, "avoid_boundary_dots")
    esmtp = sim.draw_bool(0.5, "esmtp")
    hdr = sim.draw_choice([None, b"Received: by sim"], "rcvd")
    messages = gen_messages(sim, "P1", chunk, avoid)
    nmsgs = len(messages)
    refuse = gen_refusals(sim, messages, hdr)
    sim.config = {"chunk": chunk, "avoid_boundary_dots": avoid, "esmtp": esmtp, "rcvd": bool(hdr), "nmsgs": nmsgs,
                  "refuse": refuse, "pairs": 1}
    # round 5: who asks the body producer for its first chunk, and simulated time passing during the session
    sync_pull = sim.draw_bool(0.5, "pull_on_register")
    timed = sim.draw_bool(0.3, "timed")
    timeouts = (sim.draw_choice(SERVER_TIMEOUTS, "server_timeout"), sim.draw_choice(CLIENT_TIMEOUTS, "client_timeout")) if timed else None
    sim.config.update({"pull_on_register": sync_pull, "timeouts": timeouts})
    # round 6: connection loss, synchronous pipe, consumer pulling from inside write()
    env = gen_env(sim, "", nmsgs)
    sim.config["env"] = env
    sessions = [Session(sim, "P1", chunk, esmtp, hdr, messages, refuse, sync_pull, timeouts, env)]
    # a second, independent client/server pair whose session runs at the same time (its events alternate with the first one's)
    delay2 = 0
    if sim.draw_bool(0.3, "second_pair"):
        chunk2 = sim.draw_choice(CHUNKS[1:] + CHUNKS[:1], "chunk2")
        esmtp2 = sim.draw_bool(0.5, "esmtp2")
        hdr2 = sim.draw_choice([None, b"Received: by sim"], "rcvd2")
        messages2 = gen_messages(sim, "P2", chunk2, avoid)
        refuse2 = gen_refusals(sim, messages2, hdr2)
        delay2 = sim.draw_choice([0, 3, 10, 30, 100], "delay2")
        sim.config.update({"pairs": 2, "chunk2": chunk2, "esmtp2": esmtp2, "rcvd2": bool(hdr2), "nmsgs2": len(messages2),
                           "refuse2": refuse2, "delay2": delay2})
        sync_pull2 = sim.draw_bool(0.5, "pull_on_register2")
        timeouts2 = (sim.draw_choice(SERVER_TIMEOUTS, "server_timeout2"), sim.draw_choice(CLIENT_TIMEOUTS, "client_timeout2")) if timed else None
        env2 = gen_env(sim, "2", len(messages2))
        sim.config.update({"pull_on_register2": sync_pull2, "timeouts2": timeouts2, "env2": env2})
        sessions.append(Session(sim, "P2", chunk2, esmtp2, hdr2, messages2, refuse2, sync_pull2, timeouts2, env2))

    old_chunk = basic.FileSender.CHUNK_SIZE
    basic.FileSender.CHUNK_SIZE = max(s.chunk for s in sessions)    # each session's file hands out at most its own chunk size per read
    overlap = False
    try:
        sessions[0].connect()
        n = 0
        while True:
            for s in sessions[1:]:
                if not s.started and (n >= delay2 or not sessions[0].live):
                    s.connect()
            live = [s for s in sessions if s.live]
            if not live:
                break
            if timed:
                pass_time(sim, sessions, live)
            s = live[0] if len(live) == 1 else sim.draw_choice(live, "pair")
            s.step()
            n += 1
            if not overlap and len(sessions) > 1 and all(x.client.in_data for x in sessions):
                overlap = True
                sim.probe("data_transfers_overlap")
    finally:
        basic.FileSender.CHUNK_SIZE = old_chunk
        for dc in sim.clock.getDelayedCalls():
            dc.cancel()

    for s in sessions:
        s.judge()

    allm = [(m, s.chunk) for s in sessions for m in s.messages]
    dots = any(l[:1] == b"." for m, _ in allm for l in m[3])
    multi = any(len(m[2]) > c for m, c in allm)
    if multi:
        sim.probe("multi_chunk_body")
    if any(l == b"." for m, _ in allm for l in m[3]):
        sim.probe("lone_dot_line")
    refused = any(r for s in sessions for r in s.refuse)
    sim.state((chunk if chunk < 100 else 0, nmsgs, esmtp, bool(hdr), dots, multi, len(sessions), overlap, refused))
    sim.nontrivial = dots and (multi or sim.faults.get("segmentation", 0) > 0)


MUTANTS = [
    "(all run on top of the fix for transformChunk - since in /repo e83a6d0 - so that only the mutant can fail)",
    "unfixed tree (e83a6d0 reverted): transformChunk stuffs only after CRLF inside one chunk -> caught (leading-dot-not-stuffed:body-start / :chunk-start) [genuine, REPAIRED in /repo e83a6d0]",
    "smtp.py SMTP.dataLineReceived: un-stuffing applied twice -> caught (body-lines-equal)",
    "smtp.py SMTPClient.transformChunk: in-chunk CRLF. -> CRLF.. replacement removed -> caught (body-lines-equal, all-messages-accepted, protocol-raised)",
    "smtp.py SMTPClient.finishedFileTransfer: lastsent test inverted (extra empty line) -> caught (body-lines-equal)",
    "smtp.py SMTP.dataLineReceived: blank line before header-less body not inserted -> caught (body-lines-equal)",
    "basic.py FileSender.resumeProducing: lastSent = first byte of chunk -> caught (body-lines-equal)",
    "smtp.py SMTPClient.transformChunk: LF not converted to CRLF -> caught (body-lines-equal, all-messages-accepted)",
    "round 4, refusing message objects / overlapping sessions:",
    "smtp.py SMTP.dataLineReceived: on SMTPServerError from the message object leave DATA mode and reply at once -> caught (commands-are-clients, all-messages-accepted, reply-only-after-terminator)",
    "smtp.py SMTP.dataLineReceived: refusal code sent at once, rest of the body still swallowed -> caught (reply-only-after-terminator, no-error-replies)",
    "smtp.py SMTP.dataLineReceived: first swallowed line after a refusal switches back to COMMAND mode -> caught (commands-are-clients, all-messages-accepted)",
    "smtp.py SMTP.do_DATA: datafailed of an earlier refused message not cleared -> caught (body-lines-equal, no-error-replies)",
    "smtp.py SMTPClient: line-start flag of transformChunk kept in a helper object shared by all instances -> caught (leading-dot-not-stuffed, body-lines-equal; needs overlapping sessions)",
    "smtp.py SMTPClient.transformChunk: line-start flag written to the class instead of the instance -> caught (body-lines-equal; needs overlapping sessions)",
    "round 5, first pull inside registerProducer / time passing between events:",
    "smtp.py SMTPClient.smtpState_data: line-start flag initialised after beginFileTransfer instead of before -> caught (body-lines-equal, body-lines-prefix; needs pull_on_register)",
    "basic.py FileSender.beginFileTransfer: transform stored after registerProducer -> caught (protocol-raised:AttributeError; needs pull_on_register)",
    "smtp.py SMTP.lineReceived: idle timeout re-armed in COMMAND mode only -> caught (body-lines-equal, all-messages-accepted, commands-are-clients; needs time passing inside a body)",
    "smtp.py SMTPClient.transformChunk: resetTimeout() removed -> caught (all-messages-accepted, commands-shape; needs a client timeout and time passing inside a body)",
    "smtp.py SMTPClient.lineReceived: resetTimeout() removed -> caught (all-messages-accepted; needs a client timeout and time passing)",
    "round 6, connection loss / synchronous pipe / pull from inside write():",
    "CAUGHT seeded C40-r6a (SMTP.connectionLost takes a lone '.' left in the line buffer for the end-of-data line) -> ends-at-terminator:lost-connection, "
    "reply-only-after-terminator:lost-connection (quick; needs a loss right behind the first dot of a stuffed body line)",
    "smtp.py SMTP.connectionLost: in DATA mode the unterminated rest of the line buffer is handed to the messages as a last line -> caught (body-lines-prefix:lost-connection)",
    "smtp.py SMTP.connectionLost: in DATA mode the messages are completed (eomReceived) instead of told connectionLost -> caught (ends-at-terminator:lost-connection)",
    "unfixed tree (99f3a0f reverted), SMTP.dataLineReceived: `del self.__messages` after the DeferredList fired -> caught (protocol-raised:AttributeError, eom-once, all-messages-accepted; "
    "needs the synchronous pipe with re-entry and a second message) [genuine, REPAIRED in /repo 99f3a0f: the recipients' list is forgotten before the reply is sent]",
    "unfixed tree (785db9d reverted), basic.py FileSender.resumeProducing: lastSent assigned after consumer.write() -> caught (body-lines-equal, body-lines-prefix:lost-connection: spurious "
    "trailing empty line; needs pulls from inside write()) [genuine, REPAIRED in /repo 785db9d: lastSent is recorded before the chunk is handed to the consumer]",
]
