"""C40 — SMTP transfers message bodies transparently.

Engine E3 (net): a real smtp.SMTPClient (subclass supplying envelope and a file
holding the body) talks to a real smtp.SMTP / smtp.ESMTP server with a recording
IMessageDelivery / IMessageSMTP over detsim.net.Link.  basic.FileSender (the
pull producer SMTPClient uses for the body) reads the file in CHUNK_SIZE pieces;
CHUNK_SIZE is a per-run knob from 1 byte up.  The tape chooses the bodies (lines
rich in leading dots, lone "." lines, empty lines, header-looking lines, long
lines), the chunk size and every network event (segmentation both ways).

Oracle (end-to-end, written from RFC 5321 section 4.5.2 and the statement):
  * the lines handed to the server-side message == body lines after the server's
    documented header handling (Received header first if the delivery gives one;
    one blank line inserted if the first body line is non-empty and has no ':');
  * end-of-message is signalled exactly once per message and only after the
    client has read its file to EOF and sent its terminator;
  * the command lines the server executed are exactly the command lines the
    client sent with sendLine (nothing from a body became a command);
  * every message is reported to the client as sent with a 250.

A mismatch whose first divergence is a body line that starts with '.' and sits
at body offset 0 or at a FileSender chunk boundary gets its own signature
(`leading-dot-not-stuffed:body-start|chunk-start`): that is the defect DESIGN §8
predicts for SMTPClient.transformChunk.  In half of the runs the body generator
avoids that precondition (knob "avoid_boundary_dots") so that every other clause
is still exercised on full sessions.
"""
import io
import traceback

from zope.interface import implementer

from twisted.internet import defer
from twisted.mail import smtp
from twisted.protocols import basic
from detsim import net

ID = "C40"
ENGINE = "net"
LEVEL = "exploration"
TECHNIQUE = ("deterministic simulation: real SMTPClient <-> real SMTP/ESMTP over a simulated link, seeded bodies, "
             "FileSender chunk size and wire segmentation; end-to-end line oracle")
QUICK_RUNS = 80000
TWIN_P = 0.08   # this share of the runs drives two independent instances of the scenario one after the other (detsim.runner._run_scenario)
BATCH = 250
RUN_WALL_LIMIT_S = 120   # runs take milliseconds; generous so that an overloaded host is not mistaken for a hang
COMPONENTS = {"real": ["twisted.mail.smtp.SMTPClient (transformChunk, finishedFileTransfer, smtpState_*)",
                       "twisted.mail.smtp.SMTP / ESMTP (state_COMMAND, dataLineReceived)",
                       "twisted.protocols.basic.FileSender", "twisted.protocols.basic.LineReceiver/LineOnlyReceiver"],
              "stub": ["TCP transport, delivery segmentation and pull-producer scheduling (detsim.net.Link)",
                       "IMessageDelivery/IMessageSMTP recorder", "message file (BytesIO recording EOF)"]}
RULE = ("run = one SMTP session of 1-2 messages, each body 1-12 LF-terminated lines drawn from a dot-rich grammar, FileSender.CHUNK_SIZE "
        "drawn from {16384,1,2,3,4,5,7,8,16,64}, all network events tape-chosen; non-trivial = some body line starts with '.' "
        "and (the body was read in more than one chunk or the wire was segmented)")
ASSUMPTIONS = ["bodies are non-empty sequences of LF-terminated lines without CR, each shorter than the server's line limit (<= 300 bytes here)",
               "server delivery accepts every sender and recipient; no timeouts fire (timers are on the simulated clock and never advanced)"]

CHUNKS = [2 ** 14, 1, 2, 3, 4, 5, 7, 8, 16, 64]
TEXT = b"ab.:. X-\tz\xe9"


# ------------------------------------------------------------------ reference

def expected_lines(body_lines, hdr):
    """What the server-side message must see (statement + SMTP.dataLineReceived doc comment)."""
    out = [hdr] if hdr else []
    if body_lines and body_lines[0] != b"" and b":" not in body_lines[0]:
        out.append(b"")        # blank line between the Received header and a header-less message
    return out, out + list(body_lines)


def wire_encoding(body_lines):
    """RFC 5321 4.5.2 encoding of the body + terminator."""
    out = bytearray()
    for j, l in enumerate(body_lines):
        if l[:1] == b".":
            out += b"."
        out += l + b"\r\n"
    return bytes(out + b".\r\n")


def diagnose(body_lines, chunk, wire):
    """Recognise the predicted defect on the client's wire: up to the first
    dot-line that starts at body offset 0 / at a FileSender chunk boundary the
    DATA section equals the reference encoding, and that line went out without
    its extra dot.  (Only the first such line is examined: after it the session
    is out of step and commands may interleave with body bytes.)
    Returns "body-start" / "chunk-start" / None."""
    off = 0
    for j, l in enumerate(body_lines):
        if l[:1] == b"." and off % chunk == 0:
            ref = wire_encoding(body_lines[:j])[:-3]
            s = len(ref)
            if wire[:s] == ref and wire[s:s + len(l) + 2] == l + b"\r\n":
                return "body-start" if off == 0 else "chunk-start"
            return None
        off += len(l) + 1
    return None


# ------------------------------------------------------------------ recorders

class RecFile(io.BytesIO):
    eof = False

    def read(self, n=-1):
        d = io.BytesIO.read(self, n)
        if not d:
            self.eof = True
        return d


@implementer(smtp.IMessage)
class Msg:
    def __init__(self, h, idx):
        self.h, self.idx = h, idx
        self.lines = []
        self.eom = []          # (file_eof, terminators_sent) at each eomReceived
        self.lost = 0

    def lineReceived(self, line):
        self.lines.append(line)

    def eomReceived(self):
        c = self.h.client
        f = c.files[self.idx] if self.idx < len(c.files) else None
        self.eom.append((bool(f is not None and f.eof), c.terminators))
        self.h.sim.event("eom", self.idx, len(self.lines))
        return defer.succeed(None)

    def connectionLost(self):
        self.lost += 1


@implementer(smtp.IMessageDelivery)
class Delivery:
    def __init__(self, h, hdr):
        self.h, self.hdr = h, hdr

    def receivedHeader(self, helo, origin, recipients):
        return self.hdr

    def validateFrom(self, helo, origin):
        return origin

    def validateTo(self, user):
        h = self.h

        def make():
            m = Msg(h, h.data_count)
            h.msgs.append(m)
            return m
        return make


def make_server(base, h, hdr):
    class Server(base):
        noisy = False

        def state_COMMAND(self, line):
            h.server_cmds.append(line)
            return base.state_COMMAND(self, line)

        def do_DATA(self, rest):
            r = base.do_DATA(self, rest)
            if self.mode == smtp.DATA:
                h.data_count += 1
            return r

        def sendCode(self, code, message=b""):
            h.codes.append(code)
            return base.sendCode(self, code, message)

    if base is smtp.ESMTP:
        s = Server()
        s.delivery = Delivery(h, hdr)
    else:
        s = Server(Delivery(h, hdr))
    s.host = b"mx.sim.example"
    s.callLater = lambda period, func: h.sim.clock.callLater(period, func)
    return s


class Client(smtp.SMTPClient):
    timeout = None
    debug = False

    def __init__(self, h, messages):
        smtp.SMTPClient.__init__(self, b"client.sim.example")
        self.h = h
        self.messages = list(messages)
        self.files = []
        self.sent = []
        self.cmds = []
        self.terminators = 0
        self.in_data = False
        self.data_span = []    # [start, end) of each DATA section in transport.written

    def sendLine(self, line):
        if self.in_data and line in (b".", b"\r\n."):
            self.terminators += 1
            self.in_data = False
            r = smtp.SMTPClient.sendLine(self, line)
            self.data_span[-1][1] = len(self.transport.written)
            return r
        else:
            self.cmds.append(line)
        return smtp.SMTPClient.sendLine(self, line)

    def getMailFrom(self):
        if len(self.files) < len(self.messages):
            return self.messages[len(self.files)][0]
        return None

    def getMailTo(self):
        return self.messages[len(self.files)][1]

    def getMailData(self):
        f = RecFile(self.messages[len(self.files)][2])
        self.files.append(f)
        self.in_data = True
        self.data_span.append([len(self.transport.written), None])
        return f

    def sentMail(self, code, resp, numOk, addresses, log):
        self.sent.append((code, numOk))
        self.h.sim.event("sentMail", code, numOk)


class H:
    pass


# ------------------------------------------------------------------ workload

def gen_line(sim):
    kind = sim.draw_weighted([("text", 4), ("dot", 3), ("dottext", 4), ("dotdot", 2), ("empty", 2), ("hdr", 1),
                              ("cmd", 2), ("dotcmd", 1), ("long", 1)], "linekind")
    if kind == "text":
        return sim.draw_bytes(sim.draw_int(1, 8, "len"), TEXT)
    if kind == "dot":
        return b"."
    if kind == "dottext":
        return b"." + sim.draw_bytes(sim.draw_int(1, 6, "len"), TEXT)
    if kind == "dotdot":
        return sim.draw_choice([b"..", b"...", b".. ."], "dd")
    if kind == "empty":
        return b""
    if kind == "hdr":
        return sim.draw_choice([b"Subject: x", b"X-A: .", b"a:b"], "hdr")
    if kind == "cmd":
        return sim.draw_choice([b"QUIT", b"RSET", b"DATA", b"MAIL FROM:<evil@sim.example>", b"250 ok"], "cmd")
    if kind == "dotcmd":
        return sim.draw_choice([b".QUIT", b".RSET", b".DATA"], "dcmd")
    n = sim.draw_choice([17, 63, 64, 65, 129, 300], "longlen")
    return (sim.draw_bytes(4, TEXT) * (n // 4 + 1))[:n]


def gen_body(sim, chunk, avoid):
    n = sim.draw_int(1, 12, "nlines")
    lines = []
    off = 0
    for _ in range(n):
        l = gen_line(sim)
        if avoid and l[:1] == b"." and (off == 0 or off % chunk == 0):
            l = b"x" + l
        lines.append(l)
        off += len(l) + 1
    return lines


def run(sim):
    chunk = sim.draw_choice(CHUNKS, "chunk")
    avoid = sim.draw_bool(0.1, "avoid_boundary_dots")
    esmtp = sim.draw_bool(0.5, "esmtp")
    hdr = sim.draw_choice([None, b"Received: by sim"], "rcvd")
    nmsgs = sim.draw_weighted([(1, 3), (2, 1)], "nmsgs")
    messages = []
    for k in range(nmsgs):
        rcpts = [b"r%d@dest.example" % i for i in range(sim.draw_int(1, 2, "nrcpt"))]
        lines = gen_body(sim, chunk, avoid)
        body = b"".join(l + b"\n" for l in lines)
        messages.append((b"from%d@src.example" % k, rcpts, body, lines))
        sim.event("body", k, body)
    sim.config = {"chunk": chunk, "avoid_boundary_dots": avoid, "esmtp": esmtp, "rcvd": bool(hdr), "nmsgs": nmsgs}

    h = H()
    h.sim = sim
    h.msgs, h.server_cmds, h.codes = [], [], []
    h.data_count = 0
    client = Client(h, [(m[0], m[1], m[2]) for m in messages])
    h.client = client
    server = make_server(smtp.ESMTP if esmtp else smtp.SMTP, h, hdr)

    old_chunk = basic.FileSender.CHUNK_SIZE
    basic.FileSender.CHUNK_SIZE = chunk
    try:
        link = net.Link(sim, client, server)
        cap = 400 + 14 * sum(len(m[2]) for m in messages)
        finished = False
        raised = None
        try:
            link.connect(a_first=False)
            for _ in range(cap):
                if not link.step():
                    finished = True
                    break
        except Exception as e:      # classified below, after the diagnosis of the predicted defect
            tb = traceback.extract_tb(e.__traceback__)[-1]
            raised = (type(e).__name__, "%s: %s (at %s:%s %s)" % (type(e).__name__, str(e)[:200], tb.filename.split("/")[-1], tb.lineno, tb.name))
            sim.event("raised", raised[0])
    finally:
        basic.FileSender.CHUNK_SIZE = old_chunk
        for dc in sim.clock.getDelayedCalls():
            dc.cancel()

    # ---- oracle (recorded history, fixed order) --------------------------------
    nrc = [len(m[1]) for m in messages]
    # group recorded server messages per DATA transaction (one per recipient)
    per_data = {}
    for m in h.msgs:
        per_data.setdefault(m.idx, []).append(m)

    # 1. the predicted defect gets its own signature: the end-to-end result is wrong
    #    AND the client's wire lacks exactly the dots of boundary lines
    for k, (frm, rcpts, body, lines) in enumerate(messages):
        if k >= len(client.data_span):
            continue
        wire = bytes(link.a.written[client.data_span[k][0]:])
        _, exp = expected_lines(lines, hdr)
        ms = per_data.get(k, [])
        if ms and all(m.lines == exp for m in ms):
            continue
        where = diagnose(lines, chunk, wire)
        if where:
            sim.fail("leading-dot-not-stuffed", where,
                     "chunk=%d body=%r DATA section on the wire=%r server message got %r" % (chunk, body, wire[:400], [m.lines for m in ms][:1]))

    sim.check("protocol-raised", raised is None, raised and raised[0], raised and raised[1])
    sim.check("session-completes", finished, "steps", "link still busy after %d steps" % cap)
    sim.check("all-messages-accepted", sorted(per_data) == list(range(nmsgs)), "data-count",
              "DATA transactions seen by server: %r expected %d" % (sorted(per_data), nmsgs))
    for k, (frm, rcpts, body, lines) in enumerate(messages):
        ms = per_data[k]
        sim.check("one-message-per-recipient", len(ms) == len(rcpts), "count", "msg %d: %d recorders for %d rcpts" % (k, len(ms), len(rcpts)))
        _, exp = expected_lines(lines, hdr)
        for m in ms:
            sim.check("body-lines-equal", m.lines == exp, "server-message",
                      lambda: "chunk=%d msg %d body=%r expected %r got %r" % (chunk, k, body, exp, m.lines))
            sim.check("eom-once", len(m.eom) == 1, "server-message", "eomReceived x%d" % len(m.eom))
            sim.check("ends-at-terminator", m.eom[0] == (True, k + 1), "server-message",
                      "eomReceived when file_eof=%r terminators_sent=%r (message %d)" % (m.eom[0][0], m.eom[0][1], k))
            sim.check("no-abort", m.lost == 0, "server-message", "IMessage.connectionLost x%d" % m.lost)
    sim.check("commands-are-clients", h.server_cmds == client.cmds, "server",
              lambda: "server executed %r; client sent %r" % (h.server_cmds, client.cmds))
    datas = [c for c in h.server_cmds if c.strip().upper() == b"DATA"]
    sim.check("commands-shape", len(datas) == nmsgs and h.server_cmds[:1] == [b"HELO client.sim.example"]
              and h.server_cmds[-1:] == [b"QUIT"], "server", lambda: "commands %r" % (h.server_cmds,))
    sim.check("no-error-replies", all(200 <= c < 400 for c in h.codes), "server", lambda: "reply codes %r" % (h.codes,))
    sim.check("client-told-sent", client.sent == [(250, n) for n in nrc], "client", "sentMail calls %r expected 250 x %r" % (client.sent, nrc))
    sim.check("terminators", client.terminators == nmsgs, "client", "terminators sent %d" % client.terminators)
    sim.check("closed", link.a.disconnected and link.b.disconnected, "link", "a=%r b=%r" % (link.a.disconnected, link.b.disconnected))

    dots = any(l[:1] == b"." for m in messages for l in m[3])
    multi = any(len(m[2]) > chunk for m in messages)
    if multi:
        sim.probe("multi_chunk_body")
    if any(l == b"." for m in messages for l in m[3]):
        sim.probe("lone_dot_line")
    sim.state((chunk if chunk < 100 else 0, nmsgs, esmtp, bool(hdr), dots, multi))
    sim.nontrivial = dots and (multi or sim.faults.get("segmentation", 0) > 0)


MUTANTS = [
    "(all run on top of the candidate fix for transformChunk, so that only the mutant can fail)",
    "unfixed tree: transformChunk stuffs only after CRLF inside one chunk -> caught (leading-dot-not-stuffed:body-start / :chunk-start) [genuine]",
    "smtp.py SMTP.dataLineReceived: un-stuffing applied twice -> caught (body-lines-equal)",
    "smtp.py SMTPClient.transformChunk: in-chunk CRLF. -> CRLF.. replacement removed -> caught (body-lines-equal, all-messages-accepted, protocol-raised)",
    "smtp.py SMTPClient.finishedFileTransfer: lastsent test inverted (extra empty line) -> caught (body-lines-equal)",
    "smtp.py SMTP.dataLineReceived: blank line before header-less body not inserted -> caught (body-lines-equal)",
    "basic.py FileSender.resumeProducing: lastSent = first byte of chunk -> caught (body-lines-equal)",
    "smtp.py SMTPClient.transformChunk: LF not converted to CRLF -> caught (body-lines-equal, all-messages-accepted)",
]
