"""C15 — every reactor delivers TCP byte streams intact and reports loss exactly once.

Engine E4 (kernel): Twisted's REAL select / poll / epoll / asyncio reactors, with
posixbase, base, tcp.Port/Server/Client/Connection and abstract.FileDescriptor,
run over an in-process model of the socket layer and the poll syscalls
(detsim.kernel).  The tape chooses socket buffer sizes (down to 1 byte), how
many bytes every send()/recv() moves, when bytes/FIN/RST travel, the order in
which readiness is reported, the applications' write patterns and when/how the
connection is closed (loseConnection, half-close, abortConnection; either side).
"""
import random

from zope.interface import directlyProvides, implementer

from twisted.internet import error, interfaces, protocol

from detsim import kernel as K, reactors as R

ID = "C15"
ENGINE = "kernel"
LEVEL = "exploration"
TECHNIQUE = "deterministic simulation: real reactors + tcp over a fake kernel (sockets, select/poll/epoll/selector), seeded partial I/O, delivery and close timing"
QUICK_RUNS = 8000
BATCH = 30
COMPONENTS = {"real": ["twisted.internet.selectreactor/pollreactor/epollreactor/asyncioreactor (doIteration, _doReadOrWrite)", "twisted.internet.posixbase (_disconnectSelectable, _PollLikeMixin, waker)",
                       "twisted.internet.base.ReactorBase (timed calls)", "twisted.internet.tcp (Port, Server, Client, Connection, Connector)", "twisted.internet.abstract.FileDescriptor"],
              "stub": ["kernel TCP sockets and select/poll/epoll/selector syscalls (detsim.kernel model: bounded buffers, in-flight bytes, FIN after data, RST)", "wall clock (simulated)"]}
RULE = ("run = one to three simulated loopback connections on a tape-chosen reactor; for each: connect to the listening port, both sides write tape-chosen patterns (0 B..2 MiB, writeSequence, timer-delayed writes), "
        "then one of loseConnection / loseWriteConnection (+ peer close) / abortConnection from either side at a tape-chosen moment; socket buffers 1 B..64 KiB; "
        "writeSequence(list): the list stays the application's - after the call it is cleared / appended to / edited / reversed, refilled and passed again, passed to the OTHER "
        "connection's transport, or broadcast to both transports in one turn followed by a private write (the model records what the list held at each call); "
        "half-close with half-closeable protocols: the side that receives the FIN (often with output still queued over several reactor turns) either keeps writing and then "
        "calls loseConnection (active), leaves its transport alone from then on (passive), or half-closes too at a moment of its own, before or after the FIN, the protocols "
        "finishing the connection once both halves are gone (halfclose); "
        "1-3 connections per run, one after the other through the same port, reactor and kernel, each with knobs of its own (half-closeable or not, way of closing, closer, "
        "peer behaviour); per side the object given to the transport is the application's protocol or a forwarding wrapper around it (the pattern of endpoints' and policies' "
        "wrappers): all wrappers of a run are instances of ONE class and provide IHalfCloseableProtocol per instance, exactly when the wrapped protocol does; "
        "applications that stop reading (pauseProducing from connectionMade, from dataReceived or from outside) and resume at a moment of their own or only when nothing moves "
        "any more; write sizes at the kernel's capacity (exactly what send buffer + peer's receive buffer still take, one more, one less), mostly towards a peer that is not "
        "reading, sometimes as the last write; close-then-timeout: after loseConnection / loseWriteConnection the closer calls abortConnection() from a timer set at the close "
        "(0 s, 0.5 s, 2 s - the latter fire when everything has come to rest) or at a tape-chosen later moment - before or after the orderly close has finished, with "
        "the transport's buffer empty or not, the socket writable or not, the peer reading or not; once abortConnection() has been issued on a connection whose protocol has "
        "not been told yet, that protocol is told ConnectionAborted without any help from the peer; whenever nothing moves any more (no kernel event, idle reactor, no timer) every byte given to a still "
        "open transport must have reached the other protocol - before the scenario pushes on; "
        "transient refusals: in half of the runs the kernel refuses a send() on a healthy connection now and then (10% or 30% of the calls) with ENOBUFS or with EAGAIN on a "
        "socket it reported writable - nothing was taken, the socket stays writable, the bytes are due at the next attempt; "
        "close requests made twice: the closer issues the same request (loseConnection / loseWriteConnection / abortConnection) a second time, at once or at a tape-chosen "
        "later moment while its protocol has not been told of the end (a half-closing peer sometimes asks twice as well); a repeated request asks for nothing new, so every "
        "clause stays as it is (a loseWriteConnection() repeated after the first has taken effect only in the REPEAT_HALFCLOSE_AFTER_EFFECT_P share of such connections); "
        "non-trivial = at least one partial or short send/recv or EAGAIN occurred and data flowed")
ASSUMPTIONS = ["the property names real loopback TCP; the claim is over the kernel MODEL (a real kernel cannot be made replayable): FIFO per direction, FIN ordered behind data, RST discards in-flight data",
               "close() with unread input is modelled as FIN (Linux would send RST); no listen backlog limit",
               "clean ConnectionDone on both sides is demanded only in runs where no RST was generated (no data arrived at an already closed socket)",
               "delivery of written bytes may not depend on the application touching the transport again: the stalled-with-unsent-output clause is evaluated only when no kernel event is "
               "enabled, three further reactor turns move nothing, no timer is due (timers in the future - delayed writes, the closer's timeout - do not count: the check is made before "
               "simulated time jumps to them), neither protocol has had connectionLost, no RST occurred and no abortConnection was issued",
               "a list passed to writeSequence() remains the caller's object: what the call writes is the list's content at the time of the call",
               "abortConnection() on a transport whose protocol has not had connectionLost ends the connection by itself: at rest (no kernel event enabled, three further reactor turns "
               "move nothing, no timer due) that protocol must have been told, with ConnectionAborted; the peer owes nothing to this (it may have stopped reading for good)",
               "an application that has paused reading is owed no delivery while that lasts, nor is one that has called loseConnection() and whose close is waiting for a peer that "
               "has paused reading (the stalled-with-unsent-output clause skips that direction)",
               "whether a protocol gets half-close notifications is a matter of the OBJECT handed to the transport (zope.interface per-instance declarations count), not of its class",
               "RSTs are attributed per connection of a run (earlier connections' resets do not soften a later connection's clauses)",
               "ENOBUFS from send() (and EAGAIN on a socket reported writable) is a transient refusal in the kernel model: nothing was written, the connection is intact and the "
               "socket is still reported writable; a reactor turn in which a send() was refused counts as activity (quiescence = three turns in a row without one)",
               "asking for the same close twice is legal and asks for nothing new: the bytes written before the first request are delivered, the reasons stay clean, the peer's "
               "bytes after a half-close still arrive; no call is made on a transport whose protocol has had connectionLost (no verdict there)",
               "both sides half-closing is exercised with half-closeable protocols only (for any other protocol the peer's FIN ends the connection and discards queued output, so no delivery is demanded)"]
LEVEL_NOTE = ("Trusted: the kernel model (detsim/kernel.py; readiness table in DESIGN.md A.4), the scenario oracle. Real code: the four reactors, posixbase, base, tcp, abstract. "
              "A violation seen only on the model must be confirmed against real loopback sockets before it is believed.")


# Share of the connections (among those whose closer repeats its loseWriteConnection() later on) in which the repeated request may
# also come AFTER the first one has taken effect (FIN sent, connection still open for reading).  That is the precondition of a
# genuine defect of the tree as first examined, REPAIRED in /repo 8d922e0 (see MUTANTS: "GENUINE DEFECT"); the precondition is let
# into half of those connections (0 only for dev-time comparison); in the other connections the request is repeated only while
# the first one is still pending.
REPEAT_HALFCLOSE_AFTER_EFFECT_P = 0.5


class Rec(protocol.Protocol):
    def __init__(self, sim, name, st):
        self.sim = sim
        self.name = name
        self.st = st
        self.got = bytearray()
        self.lost = []
        self.made = 0
        self.data_after_lost = 0
        self.read_lost = 0
        self.write_lost = 0

    def connectionMade(self):
        self.made += 1
        bs = self.st["bufferSize"]
        if bs:
            self.transport.bufferSize = bs
        sl = self.st.get("SEND_LIMIT")
        if sl:
            # tuning knob of every stream transport: most bytes offered to send() at once, and the backlog above which
            # newly written data is parked instead of being merged into the buffer that is being sent
            self.transport.SEND_LIMIT = sl
        self.sim.event(self.name, "connectionMade")
        if self.st.get("born_paused") == self.name:
            # not ready for input yet: reading is paused from the start
            self.st["paused"][self.name] = True
            self.sim.probe("pause_reading_from_connectionMade")
            self.sim.event(self.name, "pause-read", "in-connectionMade")
            self.transport.pauseProducing()

    def dataReceived(self, data):
        if self.lost:
            self.data_after_lost += 1
        self.got += data
        if self.st.get("pause_armed") == self.name:
            # back-pressure the usual way: the application stops its input from inside dataReceived
            self.st["pause_armed"] = None
            self.st["paused"][self.name] = True
            self.sim.probe("pause_reading_from_dataReceived")
            self.sim.event(self.name, "pause-read", "in-dataReceived")
            self.transport.pauseProducing()
        if self.st.get("armed") and self.name == self.st.get("closer"):
            # the application closes from inside dataReceived, with output still pending
            self.st["armed"] = False
            self.sim.probe("close_from_dataReceived")
            self.st["close_now"]()

    def connectionLost(self, reason):
        self.lost.append(reason)
        self.sim.event(self.name, "connectionLost", reason.type.__name__)


@implementer(interfaces.IHalfCloseableProtocol)
class HalfRec(Rec):
    def readConnectionLost(self):
        self.read_lost += 1
        self.sim.event(self.name, "readConnectionLost")
        w = self.st.get("written")
        if w is not None and w[self.name] > self.transport.getHandle().sent_total:
            # the peer's FIN is processed while this side still has output queued in the transport
            self.sim.probe("fin_read_with_output_queued")
            self.sim.probe("fin_read_with_output_queued/" + self.st.get("peer_mode", "-"))
        # both halves gone (we half-closed earlier) or we were told to: a half-closeable
        # protocol has to finish the connection itself
        if self.st.get("close_on_read_lost") or self.write_lost:
            self.st["lose_called"].add(self.name)
            self.transport.loseConnection()

    def writeConnectionLost(self):
        self.write_lost += 1
        self.sim.event(self.name, "writeConnectionLost")
        # the peer half-closed first and now our own half-close is complete: both halves are gone
        if self.read_lost:
            self.sim.probe("both_halves_lost_write_last")
            self.st["lose_called"].add(self.name)
            self.transport.loseConnection()


def _wrapper_class():
    """A protocol wrapper in the style of endpoints._WrappingProtocol / policies.ProtocolWrapper: the object the transport talks
    to forwards everything to the application's protocol, and an INSTANCE provides IHalfCloseableProtocol exactly when the
    protocol it wraps does.  So objects of this one class differ in what they provide.  A fresh class per run: whatever the
    code under test may remember about the class cannot travel from one run to the next (runs stay replayable)."""

    class Wrap(protocol.Protocol):
        def __init__(self, inner):
            self.inner = inner
            if interfaces.IHalfCloseableProtocol.providedBy(inner):
                directlyProvides(self, interfaces.IHalfCloseableProtocol)

        def makeConnection(self, transport):
            self.connected = 1
            self.transport = transport
            self.inner.makeConnection(transport)

        def dataReceived(self, data):
            self.inner.dataReceived(data)

        def connectionLost(self, reason):
            self.connected = 0
            self.inner.connectionLost(reason)

        def readConnectionLost(self):
            self.inner.readConnectionLost()

        def writeConnectionLost(self):
            self.inner.writeConnectionLost()

    return Wrap


def _rst_count(sim):
    return sum(v for k, v in sim.faults.items() if k.startswith("rst"))


def run(sim):
    kind = sim.draw_choice(list(R.KINDS), "reactor")
    sndbuf = sim.draw_choice([65536, 1, 7, 64, 1024], "sndbuf")
    rcvbuf = sim.draw_choice([65536, 1, 7, 64, 1024], "rcvbuf")
    bufsz = sim.draw_choice([0, 16, 300], "bufferSize")
    send_limit = sim.draw_choice([0, 0, 1, 4, 50, 4096], "SEND_LIMIT")   # 0 = the default (128 KiB)
    # connections of one run: made one after the other through the same listening port, on the same reactor and kernel
    nconn = sim.draw_weighted([(1, 6), (2, 3), (3, 1)], "connections")
    unit = min(sndbuf, rcvbuf, bufsz or 65536, send_limit or 65536)   # bytes moved per syscall at best
    sim.config = {"reactor": kind, "sndbuf": sndbuf, "rcvbuf": rcvbuf, "bufferSize": bufsz, "SEND_LIMIT": send_limit, "connections": []}
    now = [0.0]
    kern = K.Kernel(sim, sndbuf=sndbuf, rcvbuf=rcvbuf)
    kern.spurious_p = sim.draw_choice([0.0, 0.0, 0.05], "spurious_p")
    # the kernel may refuse a send() for the moment without the connection being any the worse for it (ENOBUFS, or EAGAIN on a
    # socket that was reported writable): nothing was taken, the same bytes are offered again at the next writable event
    kern.send_refusal_p = sim.draw_choice([0.0, 0.0, 0.1, 0.3], "send_refusal_p")
    sim.config["send_refusal_p"] = kern.send_refusal_p
    Wrap = _wrapper_class()

    class SF(protocol.Factory):
        cx = None

        def buildProtocol(self, addr):
            return self.cx["build"]("S")

    class CF(protocol.ClientFactory):
        failed = None

        def __init__(self, cx):
            self.cx = cx

        def buildProtocol(self, addr):
            return self.cx["build"]("C")

        def clientConnectionFailed(self, connector, reason):
            self.failed = reason

    def connection(index):
        """The knobs of one connection (drawn when it is about to be made) and its protocol objects."""
        half = sim.draw_bool(0.5, "halfcloseable")
        closing = sim.draw_choice(["lose", "halfclose", "abort"], "closing")
        closer = sim.draw_choice(["C", "S"], "closer")
        oneway = sim.draw_bool(0.45, "oneway")   # only the closing side writes (so no RST can be provoked by the peer's data)
        # what the side that RECEIVES the half-close does afterwards:  active = keeps writing, then loseConnection();
        # passive = leaves its transport alone once it has seen the FIN (the scenario closes it only when nothing moves any more);
        # halfclose = half-closes too, at a moment of its own (before or after it sees the FIN), and never calls loseConnection()
        # from outside: the protocols finish the connection when both halves are gone.  (Only for half-closeable protocols: for
        # any other protocol the peer's FIN is the end of the connection, queued output included.)
        peer_mode = sim.draw_choice(["active", "passive", "halfclose"], "peer_after_halfclose") if closing == "halfclose" and half else "active"
        maxtotal = min(sim.draw_choice([2000, 200000, 2000000], "maxtotal"), max(150, unit * 120))
        # the object handed to the transport is the application's protocol itself or a wrapper around it (per side)
        wrapped = {"C": sim.draw_bool(0.4, "wrapC"), "S": sim.draw_bool(0.4, "wrapS")}
        # an application that stops reading for a while (pauseProducing): random = resumes at a moment of its own;
        # hold = resumes only when nothing moves any more
        stall = sim.draw_weighted([("none", 3), ("random", 1), ("hold", 1)], "stall")
        born_paused = sim.draw_choice([None, "C", "S"], "born_paused") if stall != "none" else None
        # close-then-timeout idiom: the side that closed in an orderly way gives up waiting and calls abortConnection(),
        # from a timer it set when it closed, or at a tape-chosen later moment
        escalate = sim.draw_weighted([("none", 4), ("timer", 2), ("op", 1)], "escalate") if closing != "abort" else "none"
        # an application that asks twice: the closer issues the same close request again (two layers of one application each
        # doing it, a timeout handler that closes what was closed already) - at once, or at a tape-chosen later moment while its
        # connection is still there.  A repeated request asks for nothing new.
        repeat = sim.draw_weighted([("none", 5), ("at-once", 1), ("later", 2)], "repeat_close")
        repeat_late = closing == "halfclose" and repeat == "later" and sim.draw_bool(REPEAT_HALFCLOSE_AFTER_EFFECT_P, "repeat_after_effect")
        patt = {"C": random.Random(sim.draw_int(0, 10**6, "pattC")).randbytes(maxtotal + 10),
                "S": random.Random(sim.draw_int(0, 10**6, "pattS")).randbytes(maxtotal + 10)}
        # a half-closeable protocol that sees the peer's FIN after a full close must close itself
        st = {"oneway": oneway, "closer": closer, "armed": False, "bufferSize": bufsz, "close_on_read_lost": closing != "halfclose", "SEND_LIMIT": send_limit,
              "peer_mode": peer_mode, "paused": {"C": False, "S": False}, "pause_armed": None, "lose_called": set(), "born_paused": born_paused}
        protos = {}
        cls = HalfRec if half else Rec

        def build(side):
            p = cls(sim, side, st)
            protos[side] = p
            if wrapped[side]:
                sim.probe("protocol_behind_wrapper")
                return Wrap(p)
            return p

        cfgd = {"half": half, "closing": closing, "closer": closer, "maxtotal": maxtotal, "oneway": oneway, "peer_mode": peer_mode,
                "wrapped": "".join(x for x in "CS" if wrapped[x]), "stall": stall, "born_paused": born_paused, "escalate": escalate,
                "repeat": repeat, "repeat_late": repeat_late}
        sim.config["connections"].append(cfgd)
        cx = dict(cfgd, index=index, st=st, protos=protos, patt=patt, build=build, sndbuf=sndbuf, rcvbuf=rcvbuf)
        cx["cf"] = CF(cx)
        return cx

    r = None
    with R.installed(kern):
        try:
            r = R.make_reactor(kind, kern, lambda: now[0])
            with sim.guard("reactor-raised", kind):
                sf = SF()
                port = r.listenTCP(0, sf, interface="127.0.0.1")
                seen = set()
                for index in range(nconn):
                    cx = connection(index)
                    sf.cx = cx
                    if index:
                        sim.probe("further_connection_in_one_run")
                        sim.event("connection", index)
                    if cx["wrapped"]:
                        seen.add(cx["half"])
                        if len(seen) == 2:
                            sim.probe("wrapper_class_with_and_without_halfclose")
                    _drive(sim, kind, kern, r, now, port, cx)
                # stop listening, let the port close
                port.stopListening()
                for _ in range(5):
                    R.iterate(r)
                leaked = [s.fd for s in kern.leaked()]
                sim.check("no-fd-leak", not leaked, kind, "sockets still open in the kernel model at the end: %r" % leaked)
        finally:
            if r is not None:
                R.teardown(r)
    sim.sim_time += now[0]


def _drive(sim, kind, kern, r, now, port, cx):
    closing, closer, half, maxtotal, st, protos, patt, cf = cx["closing"], cx["closer"], cx["half"], cx["maxtotal"], cx["st"], cx["protos"], cx["patt"], cx["cf"]
    stall, escalate, repeat, repeat_late = cx["stall"], cx["escalate"], cx["repeat"], cx["repeat_late"]
    addr = port.getHost()
    port_addr = ("127.0.0.1", addr.port)
    rst_before = _rst_count(sim)        # (RSTs of earlier connections of this run say nothing about this one)
    r.connectTCP("127.0.0.1", addr.port, cf)
    written = {"C": 0, "S": 0}          # bytes handed to each side's transport so far
    sent = {"C": bytearray(), "S": bytearray()}   # reference model: those bytes, in call order
    cursor = {"C": 0, "S": 0}           # next unused offset of each side's pattern
    st["written"] = written
    written_at_close = {}
    # aborted: the side whose abortConnection() was issued before its protocol had been told of the loss
    state = {"closed_by": None, "phase": "open", "peer_closed": False, "timer_writes": 0, "sent": sent, "peer_mode": st["peer_mode"], "aborted": None,
             "rst_before": rst_before}
    other = {"C": "S", "S": "C"}
    app = {"kept": None}                # the application's own chunk list that it last passed to writeSequence(): [list, model of its content, side]
    paused = st["paused"]               # sides whose application has paused its transport's reading
    pauses = {"C": 0, "S": 0}

    def rst_seen():
        return _rst_count(sim) > rst_before

    def take(side, n):
        if cursor[side] + n > len(patt[side]):
            cursor[side] = 0
        data = patt[side][cursor[side]:cursor[side] + n]
        cursor[side] += n
        return data

    def note(side, data):
        sent[side] += data
        written[side] = len(sent[side])

    def can_write(side):
        p = protos.get(side)
        if p is None or p.lost:
            return False
        if st["oneway"] and side != closer and not state["closed_by"]:
            return False
        if state["closed_by"] == side:
            return False  # (writes after loseWriteConnection get no verdict: do not issue them)
        if state["peer_closed"] and side != state["closed_by"]:
            return False
        return written[side] < maxtotal

    def split(data):
        n = len(data)
        a, b = n // 3, 2 * n // 3
        return [data[:a], data[a:b], b"", data[b:]]

    def do_write(side, n, seq=False):
        if n <= 0 or not can_write(side):
            return
        p = protos[side]
        n = min(n, maxtotal - written[side])
        if seq and n >= 3:
            # any iterable of bytes is a legal argument
            kind = sim.draw_choice(["list", "tuple", "generator"], "iovec")
            if kind == "list":
                write_list(side, n)
                return
            parts = split(take(side, n))
            sim.event(side, "writeSequence", n)
            note(side, b"".join(parts))
            if kind == "generator":
                sim.probe("writeSequence_one_shot_iterable")
            p.transport.writeSequence(tuple(parts) if kind == "tuple" else (x for x in parts))
        else:
            data = take(side, n)
            sim.event(side, "write", n)
            note(side, data)
            p.transport.write(data)

    # writeSequence(<a list>): the list object stays the application's.  It may keep it, edit it, refill it and pass it
    # again - to the same transport or to the other connection's.  What a call writes is what the list held when the call
    # was made; the model keeps its own record (`content`) of what the application put into its list.
    def emit_list(side, lst, content):
        data = b"".join(content)
        sim.event(side, "writeSequence", "list", len(data))
        note(side, data)
        protos[side].transport.writeSequence(lst)

    def write_list(side, n):
        kept = app["kept"]
        room = maxtotal - written[side]
        again = kept is not None and 0 < sum(len(c) for c in kept[1]) <= room
        source = sim.draw_weighted([("fresh", 5), ("same", 2 if again else 0), ("refill", 2 if kept else 0)], "list_source")
        if source == "fresh":
            lst = split(take(side, n))
            content = list(lst)
        else:
            # a list object that was already passed to writeSequence() earlier in the run (on this or on the other connection)
            lst, content = kept[0], kept[1]
            sim.probe("list_object_written_again")
            if kept[2] != side:
                sim.probe("list_object_written_to_both_transports")
            if source == "refill":
                parts = split(take(side, n))
                if sim.draw_bool(0.5, "refill_how"):
                    lst.clear()
                    lst.extend(parts)
                else:
                    lst[:] = parts
                content[:] = parts
        emit_list(side, lst, content)
        app["kept"] = [lst, content, side]
        o = other[side]
        if sim.draw_bool(0.25, "broadcast") and can_write(o) and sum(len(c) for c in content) <= maxtotal - written[o]:
            # the same chunk list goes out on both connections in one turn, then something private on one of them
            sim.probe("list_object_written_to_both_transports")
            sim.probe("list_broadcast")
            emit_list(o, lst, content)
            if sim.draw_bool(0.6, "private_after_broadcast"):
                do_write(sim.draw_choice([side, o], "who"), sim.draw_choice([1, 2, 5, 17, 100], "size"))
        # the call has returned: the list is the application's again
        edit = sim.draw_weighted([("none", 5), ("clear", 2), ("append", 1), ("replace", 1), ("pop", 1), ("del", 1), ("reverse", 1)], "list_edit")
        if edit != "none":
            sim.event(side, "list", edit)
            sim.probe("list_edited_after_writeSequence")
        if edit == "clear":
            lst.clear()
            content.clear()
        elif edit == "del":
            del lst[:]
            del content[:]
        elif edit == "append":
            extra = take(side, sim.draw_int(1, 8, "extra"))
            lst.append(extra)
            content.append(extra)
        elif edit == "replace":
            extra = take(side, sim.draw_int(1, 8, "extra"))
            lst[-1] = extra
            content[-1] = extra
        elif edit == "pop":
            lst.pop()
            content.pop()
        elif edit == "reverse":
            lst.reverse()
            content.reverse()
        if sim.draw_bool(0.3, "write_after_list"):
            # more output on the same transport before the reactor had a chance to flush
            do_write(side, sim.draw_choice([1, 2, 5, 17, 100], "size"))

    def close_now():
        side = closer
        p = protos.get(side)
        if p is None or p.lost or state["closed_by"]:
            return
        state["closed_by"] = side
        written_at_close[side] = written[side]
        sock0 = p.transport.getHandle()
        if written[side] == sock0.sent_total and not kern.writable(sock0):
            sim.probe("close_with_all_output_in_full_kernel_buffers")
        sim.event(side, closing)
        if closing == "lose":
            st["lose_called"].add(side)
            p.transport.loseConnection()
        elif closing == "abort":
            state["aborted"] = side
            p.transport.abortConnection()
        else:
            p.transport.loseWriteConnection()
            if sim.draw_bool(0.3, "lose_right_after_halfclose"):
                # loseConnection() while the requested half-close (and the data before it) is still pending
                state["closer_also_lost"] = True
                sim.event(side, "lose-after-own-halfclose")
                sim.probe("lose_after_own_halfclose")
                st["lose_called"].add(side)
                p.transport.loseConnection()
        if repeat == "at-once":
            repeat_close("at-once")
        if escalate == "timer":
            # close, and do not wait for ever: abortConnection() from a timer set now
            r.callLater(sim.draw_choice([2.0, 0, 0.5], "abort_timeout"), abort_now, "timer")

    def repeat_close(how):
        """The closer issues its close request a second time (its connection is still there)."""
        p = protos.get(closer)
        if p is None or p.lost or state.get("repeated"):
            return    # (calls on the transport of a finished connection get no verdict: do not issue them)
        t = p.transport
        if closing == "halfclose":
            done = t.getHandle().wr_shut     # the first request has taken effect: our FIN is out
            if done and not repeat_late:
                return
            state["repeated"] = True
            sim.event(closer, "halfclose-again", how)
            sim.probe("close_request_repeated/halfclose/" + ("after-effect" if done else "pending"))
            if done:
                sim.fault("halfclose_repeated_after_effect")
            t.loseWriteConnection()
        else:
            state["repeated"] = True
            sim.event(closer, closing + "-again", how)
            sim.probe("close_request_repeated/" + closing)
            if closing == "lose":
                t.loseConnection()
            else:
                t.abortConnection()

    def abort_now(how):
        """The closer gives up on its orderly close (still pending or not) and aborts."""
        side = closer
        p = protos.get(side)
        if p is None or state["aborted"] or state.get("abort_called"):
            return
        state["abort_called"] = True
        sim.event(side, "abort-after-" + closing, how)
        if p.lost:
            # the orderly close was quicker: abortConnection() on a finished connection changes nothing
            sim.probe("abort_after_connectionLost")
        else:
            state["aborted"] = side
            sim.fault("orderly_close_escalated_to_abort")
            sock = p.transport.getHandle()
            if written[side] == sock.sent_total:
                sim.probe("escalated_with_transport_buffer_empty")
                if not kern.writable(sock):
                    sim.probe("escalated_with_all_output_in_full_kernel_buffers")
            if paused[other[side]]:
                sim.probe("escalated_while_peer_not_reading")
        p.transport.abortConnection()

    def pause_read(side, inside):
        pauses[side] += 1
        if inside:
            st["pause_armed"] = side
            return
        paused[side] = True
        sim.event(side, "pause-read")
        sim.probe("pause_reading")
        protos[side].transport.pauseProducing()

    def resume_read(side, why):
        paused[side] = False
        if st["pause_armed"] == side:
            st["pause_armed"] = None
        if protos[side].lost:
            return
        sim.event(side, "resume-read", why)
        sim.probe("resume_reading/" + why)
        protos[side].transport.resumeProducing()

    def can_pause():
        if stall == "none" or state["aborted"]:
            return []
        return [x for x in ("C", "S") if not paused[x] and st["pause_armed"] != x and pauses[x] < 3 and not protos[x].lost]

    def kernel_room(side):
        """How many more bytes the kernel would take from this side right now without the peer reading (its send buffer and the
        peer's receive buffer), less what the transport still holds: the write of that size ends exactly at 'everything accepted,
        socket not writable'."""
        sock = protos[side].transport.getHandle()
        return (sock.sndbuf - len(sock.wire)) + (sock.peer.rcvbuf - len(sock.peer.rx)) - (written[side] - sock.sent_total)

    def pick_size(side, choices):
        """A size from the list, or - a boundary of its own, above all towards a peer that has stopped reading - exactly as much as
        the kernel will still take (one more, one less); sometimes that is the last thing the applications write."""
        n = sim.draw_choice(choices, "size")
        if can_write(side) and sim.draw_bool(0.5 if paused[other[side]] else 0.1, "size_at_kernel_capacity"):
            room = kernel_room(side) + sim.draw_weighted([(0, 2), (1, 1), (-1, 1)], "off")
            if room > 0:
                sim.probe("write_sized_to_kernel_capacity")
                if paused[other[side]]:
                    sim.probe("write_sized_to_kernel_capacity/peer_not_reading")
                    if sim.draw_bool(0.5, "nothing_more_to_write"):
                        state["last_write"] = True
                return room
        return n

    def peer_close():
        side = other[closer]
        p = protos.get(side)
        if p is None or p.lost or state["peer_closed"]:
            return
        state["peer_closed"] = True
        written_at_close[side] = written[side]
        sim.event(side, "lose-after-halfclose")
        st["lose_called"].add(side)
        p.transport.loseConnection()

    def peer_halfclose():
        # the peer half-closes as well (it may not have seen the closer's FIN yet, and may have output queued)
        side = other[closer]
        p = protos.get(side)
        if p is None or p.lost or state["peer_closed"]:
            return
        state["peer_closed"] = True
        written_at_close[side] = written[side]
        sim.event(side, "halfclose-too")
        sim.probe("both_sides_halfclose")
        p.transport.loseWriteConnection()
        if sim.draw_bool(0.2, "peer_halfclose_twice"):
            sim.probe("close_request_repeated/halfclose/peer-at-once")
            p.transport.loseWriteConnection()

    def timers_due():
        return any(dc.getTime() <= now[0] for dc in r.getDelayedCalls())

    def refusals():
        # send() calls the kernel refused for the moment (the transport tried; it will be offered the socket again)
        return sum(v for k, v in sim.faults.items() if k.startswith("send_refused_transiently"))

    def progress():
        return (sum(s.sent_total + s.recv_total for s in kern.all), len(kern.all), sum(len(p.lost) for p in protos.values()), refusals())

    def settle():
        """A few more turns of the reactor, to make sure (a turn in which the kernel refused a send() for the moment does not count)."""
        quiet = 0
        while quiet < 3:
            before = refusals()
            R.iterate(r)
            quiet = quiet + 1 if refusals() == before else 0

    def stalled():
        """Nothing moves any more (no kernel event enabled, the reactor idle, no timer).  Whatever an open transport was
        given must by now have reached the other protocol: delivery may not depend on the application touching the
        transport again.  Returns True when the situation was not quiescent after all."""
        for x in ("C", "S"):
            px, py = protos.get(x), protos.get(other[x])
            if px is None or py is None:
                return False
        if state["aborted"]:
            # abortConnection() ends the connection at once, whatever the peer and the kernel buffers are doing: the aborting
            # side's protocol must have been told by now (nothing is in flight, the reactor is idle, no timer is pending)
            pa = protos[state["aborted"]]
            if not pa.lost:
                settle()
                if kern.enabled() or timers_due() or pa.lost:
                    return True
                sim.fail("aborted-connection-reported", "%s/%s" % (kind, closing),
                         "%s called abortConnection() (after %s), nothing is in flight or scheduled, and its connectionLost has not been called (peer reading paused: %s)"
                         % (state["aborted"], closing, paused[other[state["aborted"]]]))
            return False
        for x in ("C", "S"):
            px, py = protos[x], protos[other[x]]
            if rst_seen() or px.lost or py.lost or len(py.got) == written[x]:
                continue
            if paused[other[x]]:
                continue    # the receiving application has stopped reading: nothing is owed to it until it resumes
            if other[x] in st["lose_called"] and paused[x]:
                continue    # the receiver has called loseConnection() (it reads no more) and its close is held up by x, which is not reading
            # make sure: a few more turns of the reactor
            settle()
            if kern.enabled() or timers_due() or px.lost or py.lost or len(py.got) == written[x]:
                return True
            sim.fail("stalled-with-unsent-output", "%s/%s" % (kind, closing if state["closed_by"] else "open"),
                     "%s was given %d bytes, %s received %d, and nothing is in flight or scheduled (closed_by=%s peer_mode=%s %s.read_lost=%d)"
                     % (x, written[x], other[x], len(py.got), state["closed_by"], peer_mode, x, px.read_lost))
        return False

    st["close_now"] = close_now
    peer_mode = st["peer_mode"]
    sizes = [1, 2, 5, 17, 100, 1000, 5000, 70000, 300000]
    budget = sim.draw_int(5, 60, "app_ops")
    steps = 0
    idle_rounds = 0
    while True:
        steps += 1
        sim.steps += 1
        # bounded liveness: unchanged code needs < 1500 scheduler steps for any run (measured); 25000 is the budget
        sim.check("bounded-liveness", steps < 25000, "%s/%s" % (kind, closing),
                  "no quiescence within 25000 scheduler steps (closed_by=%s): connection never finished closing" % state["closed_by"])
        kev = kern.enabled()
        both = "C" in protos and "S" in protos
        opts = [("iterate", 6)]
        if kev:
            opts.append(("kernel", 6))
        if both and budget > 0 and state["phase"] == "open":
            opts.append(("write", 4))
            opts.append(("timer-write", 1))
            opts.append(("close", 1 if budget < 40 else 0))
        if state["closed_by"] and closing == "halfclose" and not state["peer_closed"] and both and not protos[other[closer]].lost:
            seen_fin = protos[other[closer]].read_lost
            if peer_mode == "active":
                opts.append(("peer-write", 2))
                # the peer only closes after it has seen the closer's FIN (else it would cut the closer's data short itself)
                if seen_fin:
                    opts.append(("peer-close", 1))
            elif peer_mode == "passive":
                # once the FIN has been seen the application leaves the transport alone
                if not seen_fin:
                    opts.append(("peer-write", 2))
            else:
                opts.append(("peer-write", 2))
                opts.append(("peer-halfclose", 1))
        if both and stall != "none":
            if state["phase"] == "open" and can_pause():
                opts.append(("pause-read", 1))
            if stall == "random" and (paused["C"] or paused["S"]):
                opts.append(("resume-read", 1))
        if escalate == "op" and state["closed_by"] and not state.get("abort_called") and not protos[closer].lost:
            opts.append(("abort-after-close", 1))
        if repeat == "later" and state["closed_by"] and not state.get("repeated") and not protos[closer].lost:
            opts.append(("repeat-close", 1))
        op = sim.draw_weighted(opts, "op")
        progress_before = progress()
        if op == "iterate":
            sim.event("it")
            R.iterate(r)
        elif op == "kernel":
            k, s = kev[sim.draw_int(0, len(kev) - 1, "kev")]
            amount = None
            if k == "deliver":
                amount = sim.draw_choice([None, 1, 3, 50, 1000, 20000], "amount")
            sim.event("k", k, "S" if s.local == port_addr else "C", amount if amount is not None else "-")
            kern.fire(k, s, amount)
            idle_rounds = 0
            continue
        elif op == "write":
            budget -= 1
            side = sim.draw_choice(["C", "S"], "who")
            do_write(side, pick_size(side, sizes), sim.draw_bool(0.3, "seq"))
            if state.get("last_write"):
                budget = 0
        elif op == "timer-write":
            budget -= 1
            side = sim.draw_choice(["C", "S"], "who")
            n = sim.draw_choice(sizes[:7], "size")
            state["timer_writes"] += 1
            r.callLater(sim.draw_choice([0, 0.5, 2.0], "delay"), do_write, side, n)
        elif op == "close":
            budget = 0
            state["phase"] = "closing"
            if closing == "lose" and not st["oneway"] and sim.draw_bool(0.6, "close_from_dataReceived"):
                # arm: the closer will call loseConnection() from its next dataReceived, with a write of its own still unflushed
                st["armed"] = True
                do_write(other[closer], sim.draw_choice(sizes[:5], "size"))
                do_write(closer, sim.draw_choice(sizes[:6], "size"))
            else:
                close_now()
        elif op == "peer-write":
            do_write(other[closer], pick_size(other[closer], sizes[:6]))
            state["last_write"] = False
        elif op == "pause-read":
            pause_read(sim.draw_choice(can_pause(), "who"), sim.draw_bool(0.3, "from_dataReceived"))
        elif op == "resume-read":
            resume_read(sim.draw_choice([x for x in ("C", "S") if paused[x]], "who"), "app")
        elif op == "abort-after-close":
            abort_now("op")
        elif op == "repeat-close":
            repeat_close("op")
        elif op == "peer-close":
            peer_close()
        elif op == "peer-halfclose":
            peer_halfclose()
        # quiescence detection: nothing in the kernel to do, an iteration made no progress, no timers
        after = progress()
        if op == "iterate" and after == progress_before and not kern.enabled():
            timers = [dc for dc in r.getDelayedCalls()]
            if timers:
                t = min(dc.getTime() for dc in timers)
                if t > now[0]:
                    # at rest until a timer in the future fires (a delayed write, the closer's timeout): what the transports
                    # were given so far may not wait for that
                    idle_rounds += 1
                    if idle_rounds < 2:
                        continue
                    sim.probe("at_rest_with_timer_pending")
                    if stalled():
                        idle_rounds = 0
                        continue
                    now[0] = t
                idle_rounds = 0
                continue
            idle_rounds += 1
            if idle_rounds >= 2:
                if stalled():
                    idle_rounds = 0
                    continue
                # nothing more will happen by itself: push the scenario forward
                if both and not state["closed_by"]:
                    state["phase"] = "closing"
                    budget = 0
                    close_now()
                    idle_rounds = 0
                    continue
                if paused["C"] or paused["S"]:
                    # the applications that stopped reading start again
                    for x in ("C", "S"):
                        if paused[x]:
                            resume_read(x, "idle")
                    idle_rounds = 0
                    continue
                if both and closing == "halfclose" and not state["peer_closed"] and not protos[other[closer]].lost:
                    if peer_mode == "halfclose":
                        peer_halfclose()
                        idle_rounds = 0
                        continue
                    if protos[other[closer]].read_lost:
                        peer_close()
                        idle_rounds = 0
                        continue
                break
        else:
            idle_rounds = 0
    for _ in range(5):
        R.iterate(r)
    _oracle(sim, kind, kern, protos, cf, written, written_at_close, patt, closing, closer, half, state)


def _oracle(sim, kind, kern, protos, cf, written, wac, patt, closing, closer, half, state):
    wit = "%s/%s" % (kind, closing)
    sim.check("connected", "C" in protos and "S" in protos and cf.failed is None, wit, "connection was never established: failed=%r protos=%r" % (cf.failed, sorted(protos)))
    other = {"C": "S", "S": "C"}
    rst = _rst_count(sim) > state["rst_before"]
    aborted = state["aborted"]
    for side in ("C", "S"):
        p = protos[side]
        o = other[side]
        sim.check("connectionLost-exactly-once", len(p.lost) == 1, wit, "%s.connectionLost called %d times" % (side, len(p.lost)))
        sim.check("no-data-after-connectionLost", p.data_after_lost == 0, wit, "%s got dataReceived after connectionLost" % side)
        sent = bytes(state["sent"][o])
        got = bytes(p.got)
        sim.check("received-is-prefix-in-order", sent.startswith(got), wit,
                  lambda: "%s received %d bytes that are not a prefix of the %d bytes %s wrote (first diff at %d)" % (side, len(got), len(sent), o, _firstdiff(got, sent)))
    c = protos[closer]
    pr = protos[other[closer]]
    if state["closed_by"] is None:
        return
    if aborted:
        # abortConnection() took effect (first thing, or giving up on an orderly close that had not finished): no delivery is owed
        # beyond a prefix; the aborting side is told so, the peer sees a reset or - if everything had arrived already - a clean end
        sim.check("aborter-reason", c.lost[0].check(error.ConnectionAborted) is not None, wit, "aborting side got %s" % c.lost[0].type.__name__)
        sim.check("abort-peer-not-clean-or-complete", pr.lost[0].check(error.ConnectionLost, error.ConnectionDone) is not None, wit, "peer got %s" % pr.lost[0].type.__name__)
    elif closing == "lose":
        # everything the closer wrote before loseConnection reaches the peer
        if not rst:
            # (an RST — the peer's own data reaching the already closed socket — legitimately destroys unread data)
            sim.check("all-bytes-before-loseConnection-delivered", len(pr.got) == wac[closer], wit,
                      "%s wrote %d bytes before loseConnection, peer received %d" % (closer, wac[closer], len(pr.got)))
        sim.check("closer-reason-clean", c.lost[0].check(error.ConnectionDone) is not None, wit, "closer got %s" % c.lost[0].type.__name__)
        if not rst:
            sim.check("peer-reason-clean", pr.lost[0].check(error.ConnectionDone) is not None, wit, "peer got %s after orderly close (no RST in this run)" % pr.lost[0].type.__name__)
    else:
        # half-close: closer's bytes all arrive; if peer is half-closeable it is told once and may keep writing
        if not rst:
            sim.check("all-bytes-before-halfclose-delivered", len(pr.got) == wac[closer], wit,
                      "%s wrote %d bytes before loseWriteConnection, peer received %d" % (closer, wac[closer], len(pr.got)))
        if half:
            if not rst:
                sim.check("readConnectionLost-once", pr.read_lost == 1, wit, "peer.readConnectionLost called %d times" % pr.read_lost)
            else:
                sim.check("readConnectionLost-at-most-once", pr.read_lost <= 1, wit, "peer.readConnectionLost called %d times" % pr.read_lost)
            if state.get("closer_also_lost"):
                sim.check("writeConnectionLost-at-most-once", c.write_lost <= 1, wit, "closer.writeConnectionLost called %d times" % c.write_lost)
            else:
                sim.check("writeConnectionLost-once", c.write_lost == 1, wit, "closer.writeConnectionLost called %d times" % c.write_lost)
            if not rst and not state.get("closer_also_lost"):
                sim.check("halfclose-peer-bytes-delivered", len(c.got) == written[other[closer]], wit,
                          "peer wrote %d bytes (some after the half-close), closer received %d" % (written[other[closer]], len(c.got)))
                if state.get("peer_mode") == "halfclose":
                    # both sides half-closed: each is told once about either half
                    sim.check("readConnectionLost-once", c.read_lost == 1, wit, "closer.readConnectionLost called %d times (the peer half-closed too)" % c.read_lost)
                    sim.check("writeConnectionLost-once", pr.write_lost == 1, wit, "peer.writeConnectionLost called %d times (it half-closed too)" % pr.write_lost)
        if not rst:
            for side in ("C", "S"):
                sim.check("reason-clean-after-halfclose", protos[side].lost[0].check(error.ConnectionDone) is not None, wit,
                          "%s got %s" % (side, protos[side].lost[0].type.__name__))
    leaked = [s.fd for s in kern.leaked() if not s.listening]
    sim.check("no-fd-leak", not leaked, wit, "sockets still open in the kernel model at the end: %r" % leaked)
    io_faults = sum(sim.faults.get(k, 0) for k in ("partial_send", "short_send", "short_recv")) + sim.probes.get("send_eagain", 0) + sim.probes.get("recv_eagain", 0)
    sim.nontrivial = io_faults > 0 and (written["C"] + written["S"]) > 0
    sim.state((kind, closing, closer, half, rst, min(io_faults, 3), state.get("peer_mode"), bool(aborted)))


def _firstdiff(a, b):
    for i in range(min(len(a), len(b))):
        if a[i] != b[i]:
            return i
    return min(len(a), len(b))


# Sensitivity (tools/mutate.py C15 quick ...), all on the quick tier.
MUTANTS = [
    "tcp.Connection.writeSomeData: `except BlockingIOError: return 0 / except OSError: return CONNECTION_LOST` - ENOBUFS no longer transient (seed C15-r6a) -> CAUGHT "
    "(all-bytes-before-*-delivered, closer-reason-clean / reason-clean-after-halfclose, halfclose-peer-bytes-delivered: a refused send() ends the connection with ConnectionLost)",
    "GENUINE DEFECT of the tree as first examined, REPAIRED in /repo 8d922e0: abstract.FileDescriptor.loseWriteConnection() called again after the first half-close has taken effect: "
    "_writeDisconnecting stayed set and "
    "startWriting() was unconditional, doWrite() offered b'' to the write-shut socket, send() failed with EPIPE, the protocol got connectionLost(ConnectionLost) and what the peer "
    "wrote afterwards was never delivered (reason-clean-after-halfclose:*/halfclose, halfclose-peer-bytes-delivered:*/halfclose; confirmed on real loopback sockets with the "
    "select, poll and epoll reactors).  The precondition is let into the REPEAT_HALFCLOSE_AFTER_EFFECT_P = 0.5 share of the connections that repeat the request later "
    "(0 only for dev-time comparison).  Repair: a second loseWriteConnection() after the write side is shut down is a no-op (`if self._writeDisconnected: return` at the top "
    "of loseWriteConnection()): check passes with the knob on",
    "posixbase._disconnectSelectable: removeWriter() also on the read-side half-close branch (seed C15-r4a) -> CAUGHT (stalled-with-unsent-output:*/halfclose, in the active, passive and "
    "both-sides-half-close variants: the FIN is read while output is queued and the application does not touch the write side again)",
    "tcp.Connection.readConnectionLost: stopWriting() after the protocol's readConnectionLost -> CAUGHT (stalled-with-unsent-output:asyncio/halfclose, connectionLost-exactly-once:poll/lose)",
    "epollreactor._remove: keeps `event` instead of `antievent` when the other direction stays registered -> CAUGHT (stalled-with-unsent-output:epoll/*, reason-clean-after-halfclose:epoll/halfclose)",
    "abstract.FileDescriptor.writeSequence: adopts the caller's list as its pending buffer when that is empty (seed C15-r4b) -> CAUGHT (received-is-prefix-in-order:*: list cleared/edited after "
    "the call, or the same list written to both transports followed by a private write)",
    "posixbase inRead bookkeeping (seed C15-inread-bookkeeping) -> CAUGHT (stalled-with-unsent-output:poll/lose)",
    "abstract.loseConnection while a half-close is pending (seed C15-r2) -> CAUGHT (all-bytes-before-halfclose-delivered:*/halfclose)",
    "abstract.doWrite ignoring parked data (seed C15-r3) -> CAUGHT (all-bytes-before-halfclose-delivered, stalled-with-unsent-output:*/open)",
    "tcp._AbortingMixin.abortConnection: returns early when loseConnection() is pending and the transport's buffer is empty (seed C15-r5a) -> CAUGHT (aborted-connection-reported:*/lose: "
    "peer not reading, everything written sits in full kernel buffers, loseConnection then abortConnection from the timeout: connectionLost never called; aborter-reason:*: the "
    "orderly close finishes instead)",
    "tcp: IHalfCloseableProtocol looked up once per protocol CLASS in a module-level dict (seed C15-r5b) -> CAUGHT (readConnectionLost-once / writeConnectionLost-once / "
    "halfclose-peer-bytes-delivered / reason-clean-after-halfclose: a wrapped plain protocol and a wrapped half-closeable one on two connections of one run)",
]
