"""C11 — Cooperator advances only runnable tasks, completes each once, starves none.

Engine E2 (clock/ticks).  A real Cooperator gets an injected scheduler (the
tape decides when the pending tick runs, and honours its cancellation) and a
work-unit-count termination predicate (1..5 units per tick).  Up to 8 scripted
iterators are added with cooperate()/coiterate(); at every next() the tape
chooses: yield a value, yield an unfired Deferred (fired later by the tape with
success or failure), yield an already fired/failed Deferred, raise, or stop
iterating.  Operations: tick, pause, resume, stop on tasks, whenDone,
operations on finished tasks, Cooperator.stop()/start(), firing Deferreds.

Oracle: a small reference model of task states written from the documentation
(user pause count, "waiting on its own Deferred", finished kind).  Checked:
every next() happens only on a task the model calls runnable; a tick is
scheduled whenever something is runnable; bounded-wait fairness (deliberately
loose, see no_starvation); every whenDone/coiterate Deferred fires exactly once
and with the right result, and never before the task is finished; pause()/
stop() on finished tasks raise the matching exception, the same one each time.

Re-entrant family (knob `reentrant`, 6 of 10 runs): up to 6 of the whenDone/
coiterate Deferreds per run carry an application callback that, when the
Deferred fires, calls back into the Cooperator (1..2 tape-chosen operations:
add a follow-up task with cooperate()/coiterate(), resume a paused task,
fire/fail a Deferred another task waits on, pause/stop another task, whenDone,
an operation on a finished task - also the one completing right now -, or
Cooperator.stop()).  Such a callback runs wherever the real code completes a
task: inside a scheduler tick, inside task.stop(), inside the firing of a
yielded Deferred, inside resume() on a stopped Cooperator, and inside
Cooperator.stop() itself while it is still working through its tasks.  The
model is always updated before the real call, so the nested operation is
judged by the same clauses as at top level: e.g. a task that enters (or
re-enters) the Cooperator while it stops is finished with SchedulerStopped
and its Deferreds must have fired once by the time the outer operation
returns; a task paused from a callback inside a tick is not advanced later
in that tick.  While Cooperator.stop() is on the stack the tasks it has not
reached yet are `pending`: pause() on them may succeed or raise a
SchedulerError (statement silent), they still complete exactly once.

Exception universe (knob `bare_w`, 3 of 4 runs): what an iterator raises and what
a yielded Deferred fails with is drawn from an ordinary Exception and from
BaseException subclasses outside Exception (a harness class,
asyncio.CancelledError, KeyboardInterrupt, SystemExit).  The statement says
"raising" without restriction: the task ends as failed with that exception,
nothing escapes from the tick or from the firing.

Starvation families: `steady_p` (half of the runs) makes a share of the
iterators yield plain values for ever, so that tasks stay runnable side by
side for long (`spare_steady`: pause()/stop() prefer the other tasks);
`disturb_p` (half of the runs; 0.6 or 1) puts a change of the task set that
concerns another task right before a tick (pause()+resume() at once, or
cooperate()+stop() at once), so that consecutive ticks hardly ever see the
same task set.  Besides the tick-count window (whose bound grows with every
join/removal) the clause no-starvation has a relative-service form that
third-party churn does not loosen: while two tasks are runnable side by side
without interruption, one is advanced at most nmax+1 times before the other
is advanced once (nmax = most tasks runnable in that time).  Argument for a
round-robin whose cursor survives removals: between two advances of the one a
new round starts; in a complete round the other is advanced unless a removal
makes it lose its turn, which moves it one place forward in the round and so
happens fewer than nmax times.  The unchanged code stays 2 below this bound.

In-next family (knob `inner_p`, half of the runs; round 6): the application code
closest to the Cooperator is the iterator itself.  In 10% or 30% of the next()
calls (at most 6 per run) the iterator, before it answers, performs 1..2
tape-chosen operations: pause() or stop() of its OWN task, or any operation
of the re-entrant family on the others (add, resume, fire/fail, pause, stop,
whenDone, operation on a finished task, Cooperator.stop()).  The model is
updated first, so the same clauses judge the rest of the tick: a task that
paused itself is not advanced again until it is resumed (also when its
next() went on to yield a Deferred), one that stopped itself never again; its
Deferreds fire once, with the stop reason.  A task finished while its own
next() is on the stack keeps that outcome whatever the next() then ends with
(knob `end_after_finish`: StopIteration, an exception, a Deferred; otherwise a
plain value) - the clause finished-in-own-next, see KNOWN_IN_NEXT.

Iterator shapes (knob `odd_iter_w`, half of the runs): besides the plain
iterator object, classes with __len__ (items to come: 0 and hence false once
exhausted), __bool__ (false throughout) and __eq__ (equal to everything).
The statement quantifies over any iterators and the result on exhaustion is
the caller's own object, whatever its truth value or equality.

Two predicted defects of the tree as first examined have dedicated clauses
with their own signatures (see KNOWN below); the config knob `avoid_known`
(now 0.15 of the runs, kept for dev-time comparison) keeps their preconditions
from arising.  A third one, found by the re-entrant family
(a callback completes a pending task itself: stop(), or pause()+resume()),
has the clause coop-stop-reentrant and the knob `stop_pending` (1 of 4 runs),
see KNOWN_REENTRANT.  A fourth, found by the in-next family (a task finished
from inside its own next()), has the clause finished-in-own-next and the knob
END_AFTER_FINISH_P (1 of 4 runs), see KNOWN_IN_NEXT.  All four are REPAIRED in
/repo (4620a5f, 2719e45, 19f183d).
"""
import asyncio

from twisted.internet import defer, task
from twisted.python.failure import Failure

from detsim.sim import StepLimit, Violation

ID = "C11"
ENGINE = "clock"
LEVEL = "exploration"
TECHNIQUE = ("deterministic simulation: seeded interleaving of scheduler ticks, pause/resume/stop, Deferred firings and "
             "Cooperator stop/start on a real Cooperator vs a reference task-state model")
QUICK_RUNS = 48000
TWIN_P = 0.08   # this share of the runs drives two independent instances of the scenario one after the other (detsim.runner._run_scenario)
USES_DEPTH = True   # thorough tier: history length bound scales with sim.depth (1..3) beyond the quick tier\'s run indices
BATCH = 50
RUN_WALL_LIMIT_S = 60   # the machine is shared; a run itself takes about a millisecond
COMPONENTS = {"real": ["twisted.internet.task.Cooperator", "twisted.internet.task.CooperativeTask", "twisted.internet.defer.Deferred"],
              "stub": ["scheduler (tape decides when the pending tick runs)", "termination predicate (work-unit count)"]}
RULE = ("run = up to 8 scripted iterators on one Cooperator (units per tick 1..5, started or not), 10..70 tape-chosen operations "
        "(tick, add task, pause, balanced resume, unpaused resume, stop, whenDone, operation on a finished task, fire/fail a yielded Deferred, "
        "Cooperator.stop/start); iterator behaviour drawn at each next() (raised / Deferred-failure exception types in 3 of 4 runs also "
        "BaseException subclasses outside Exception: harness class, asyncio.CancelledError, KeyboardInterrupt, SystemExit); in half of the "
        "runs 40% or 70% of the iterators are steady (plain values for ever; with spare_steady pause/stop prefer the others); in half of the "
        "runs a tick is preceded (p 0.6 or 1) by a task-set change on another task (pause+resume at once, or cooperate+stop at once); "
        "in 6 of 10 runs up to 6 completion Deferreds carry a callback that "
        "re-enters the Cooperator with 1..2 operations (add, resume, fire/fail, pause, stop, whenDone, operation on a finished task, "
        "Cooperator.stop, pause - and with knob stop_pending (1 of 4 runs) stop or pause+resume - of a task a Cooperator.stop() in progress "
        "has not reached yet) from wherever the task completes "
        "(tick, task.stop(), Deferred firing, resume() on a stopped Cooperator, Cooperator.stop()); in half of the runs 10% or 30% of the "
        "next() calls (at most 6 per run) first issue 1..2 such operations themselves, pause()/stop() of the iterator's own task included "
        "(knob end_after_finish: a next() inside which its task was finished ends with StopIteration / an exception / a Deferred instead of a "
        "plain value); in half of the runs iterator objects also have __len__ (0 once exhausted), __bool__ (False) or __eq__ (always True); non-trivial = at least 2 tasks, 3 ticks "
        "and one of (pause+resume, a yielded Deferred fired, a task stopped, Cooperator.stop)")
ASSUMPTIONS = ["starvation (relative form): two tasks runnable side by side without interruption - the one is advanced at most nmax+1 times before "
               "the other is advanced once (nmax = most tasks runnable at once in that time); proven for round-robin service whose position "
               "survives removals, 2 above what the unchanged code reaches; the order in which tasks are served is not judged",
               "an iterator may raise, and a yielded Deferred may fail with, any BaseException (drawn: ScriptError, a harness BaseException subclass, "
               "asyncio.CancelledError, KeyboardInterrupt, SystemExit); GeneratorExit is not drawn",
               "operations are issued between ticks, from inside whenDone/coiterate callbacks (wherever those fire) and from inside next() of an "
               "iterator (on its own task: pause() and stop() only); "
               "scheduler ticks and Cooperator.start() are never issued from inside a callback or a next() (start() from inside a running stop() is outside the statement)",
               "a task finished while its own next() is on the stack (it stopped itself or the Cooperator, or a completion callback fired from there "
               "stopped it) is finished from that moment: what that next() then returns or raises does not change its outcome and must not escape "
               "from the tick; a Deferred it returns then is never fired by the harness",
               "an unbalanced resume() of a task that waits on a Deferred it yielded is a caller error (DESIGN section 6) and not issued "
               "(constant UNBALANCED_RESUME_W = 0; the unchanged code accepts it and advances the task early)",
               "iterator objects may define __len__, __bool__ and __eq__; the Cooperator's results are compared by identity",
               "a task that was running when Cooperator.stop() began and that stop() has not completed yet may accept pause() or reject it with a "
               "SchedulerError; if a callback stop()s it first, TaskStopped and SchedulerStopped are both accepted as its stop reason (knob stop_pending only)",
               "resume() is only issued to balance an earlier user pause(), or on an unpaused task (must raise NotPaused)",
               "resume() on finished tasks is not judged (undocumented); tasks finished by Cooperator.stop() may raise SchedulerStopped "
               "(not a TaskFinished subtype) from pause()/stop()",
               "tasks that are paused or waiting on a Deferred when Cooperator.stop() is called are completed (SchedulerStopped) only when they would re-enter the stopped Cooperator"]

# Dedicated signatures of the two predicted defects (DESIGN section 8); both REPAIRED in /repo 4620a5f.
KNOWN = ["C11:coop-stop-completes-all:skipped", "C11:stopped-state-stable:late-deferred-failure"]

MAX_TASKS = 8

# Genuine defect found by the re-entrant family (REPAIRED in /repo 2719e45: "Cooperator.stop() skips tasks that a callback completed
# while it was completing the others"): a completion callback fired by Cooperator.stop() that completes a task stop() has not
# reached yet (otherTask.stop(), or pause()+resume() of it) made stop() complete that task a second time -> ValueError /
# AlreadyCalledError out of Cooperator.stop(), the remaining tasks never completed.  Its precondition arises only in runs that
# draw the `stop_pending` knob (share of such runs below; FORCE_STOP_PENDING = True forces it, FORCE_AVOID_KNOWN = True suppresses it):
STOP_PENDING_P = 0.25
KNOWN_REENTRANT = ["C11:coop-stop-reentrant:task-completed-by-callback:*"]
# development switches (module-level constants, never read from the environment): every run draws as if the knob had come out this way
FORCE_AVOID_KNOWN = False
FORCE_STOP_PENDING = False

# Genuine defect of the tree as first examined, found by the in-next family (operations issued from inside an iterator's own
# next()), REPAIRED in /repo 19f183d: a task that is finished
# while its own next() is on the stack (it calls stop() on itself, or Cooperator.stop(), or a completion callback fired from
# there stops it) and whose next() then ends with StopIteration, an exception or a Deferred was completed a SECOND time by
# CooperativeTask._oneWorkUnit: ValueError (list.remove) / AlreadyCalledError / TaskStopped escaped from Cooperator._tick, the
# tick was not rescheduled (the other running tasks stopped being served) and the recorded completion state was overwritten.
# Its precondition (a next() that ends in anything but a plain value after the task was finished inside it) arises in the
# runs that draw the `end_after_finish` knob (share below, 0.25; 0 = never, only for dev-time comparison: such a next() then
# always returns a plain value).
END_AFTER_FINISH_P = 0.25
KNOWN_IN_NEXT = ["C11:finished-in-own-next:*"]

# Outside the statement as DESIGN section 6 reads it (a resume() that balances no pause() of the caller is a caller error), hence
# OFF: weight of the operation "resume() of a task the caller has not paused while it waits on a Deferred it yielded" (clause
# unbalanced-resume-while-waiting: must raise NotPaused and leave the task waiting).  The unchanged code accepts such a resume()
# (the internal pause shares CooperativeTask._pauseCount with the caller's), advances the task while its Deferred is unfired and
# raises NotPaused inside that Deferred's chain when it fires.  Set to 1 to exercise it.
UNBALANCED_RESUME_W = 0


class ScriptError(Exception):
    pass


class ScriptHalt(BaseException):
    """Harness-defined exception deriving from BaseException but NOT from Exception (an application's own "stop" class)."""


# Exception universe of the scripted iterators and of the Deferreds they yield.  The statement says "raising" without
# restricting the type: besides an ordinary Exception a task may end with a BaseException that is not an Exception
# (asyncio.CancelledError since Python 3.8, an application class, KeyboardInterrupt/SystemExit raised inside the iterator).
BARE = (ScriptHalt, asyncio.CancelledError, KeyboardInterrupt, SystemExit)
CAUGHT = (Exception,) + BARE


class Tick:
    """IDelayedCall-like handle returned by the injected scheduler."""

    def __init__(self, fn):
        self.fn = fn
        self.cancelled = False
        self.ran = False

    def cancel(self):
        self.cancelled = True

    def active(self):
        return not (self.cancelled or self.ran)


class MT:
    """Model of one task."""

    def __init__(self, tid, via):
        self.tid = tid
        self.via = via
        self.user_pauses = 0
        self.waiting = None      # id of the yielded, unfired Deferred
        self.finished = None     # None | done | failed | stopped | sched
        self.expect = None
        self.watchers = []       # lists of observed results
        self.task = None         # real CooperativeTask (cooperate only)
        self.it = None
        self.win = None          # fairness window
        self.raised = {}         # op -> exception type seen on the finished task
        self.nexts = 0
        self.steady = False      # its iterator yields plain values for as long as it is asked
        self.shape = "plain"     # class of its iterator object (see SHAPES)

    def runnable(self):
        return self.finished is None and self.user_pauses == 0 and self.waiting is None


FINISHED_EXC = {"done": task.TaskDone, "failed": task.TaskFailed, "stopped": task.TaskStopped}


def run(sim):
    units = sim.draw_int(1, 5, "units")
    started = not sim.draw_bool(0.2, "not_started")
    ntasks0 = sim.draw_int(1, 5, "ntasks0")
    nops = sim.draw_int(10, 70 * sim.depth, "nops")
    avoid = sim.draw_bool(0.15, "avoid_known") or FORCE_AVOID_KNOWN
    # re-entrant family: completion callbacks (whenDone / coiterate Deferreds) that call back into the Cooperator and its tasks
    reent = sim.draw_bool(0.6, "reentrant")
    # operations that complete, from such a callback, a task which the running Cooperator.stop() has not reached yet (see KNOWN_REENTRANT)
    stop_pending = (sim.draw_bool(STOP_PENDING_P, "stop_pending") and STOP_PENDING_P > 0) or FORCE_STOP_PENDING
    if FORCE_AVOID_KNOWN and not FORCE_STOP_PENDING:
        stop_pending = False
    # exception universe: weight of the BaseException subclasses outside Exception (against 4 for an ordinary Exception); 0 = none
    bare_w = sim.draw_choice([0, 1, 2, 4], "bare_w")
    # steady family: share of the tasks whose iterator keeps yielding plain values for as long as it is asked (such a task stays
    # runnable while the others come and go: the subjects of the starvation clause); 0 = every task draws its behaviour at each next()
    steady_p = sim.draw_choice([0.0, 0.0, 0.4, 0.7], "steady_p")
    # in runs with steady tasks: pause()/stop() go to the other tasks when there are any (the steady ones stay runnable for long)
    spare = bool(steady_p) and sim.draw_bool(0.5, "spare_steady")
    # disturbance family: with this probability a scheduler tick is immediately preceded by a change of the task set that concerns
    # another task (a task is paused and resumed at once, or a task is added and stopped at once), so that consecutive ticks
    # hardly ever see the same set of running tasks; 0 = ticks and the other operations are drawn independently
    disturb_p = sim.draw_choice([0.0, 0.0, 0.6, 1.0], "disturb_p")
    # in-next family: with this probability an iterator, before it answers a next(), itself operates on the Cooperator and its
    # tasks (1..2 tape-chosen operations: pause()/stop() of its OWN task, or any of the operations a completion callback may
    # issue on the others); at most 6 such next() calls per run; 0 = iterators never call back
    inner_p = sim.draw_choice([0.0, 0.0, 0.1, 0.3], "inner_p")
    # a next() inside which its own task was finished may end with StopIteration / an exception / a Deferred (see KNOWN_IN_NEXT)
    eaf = sim.draw_bool(END_AFTER_FINISH_P, "end_after_finish")
    end_after_finish = bool(inner_p) and END_AFTER_FINISH_P > 0 and eaf and not FORCE_AVOID_KNOWN
    # iterator shapes: weight (against 4 for a plain iterator object) of iterator classes with more protocol surface than
    # __iter__/__next__ - __len__ (items still to come: 0, hence false, once exhausted), __bool__ (false throughout), __eq__
    # (equal to everything).  The statement says "any set of iterators"; the Cooperator hands the object back, it has no business
    # asking it anything but next().  0 = plain iterators only
    odd_w = sim.draw_choice([0, 0, 2, 6], "odd_iter_w")
    sim.config = {"units": units, "started": started, "ntasks0": ntasks0, "nops": nops, "avoid_known": avoid,
                  "reentrant": reent, "stop_pending": stop_pending, "bare_w": bare_w, "steady_p": steady_p,
                  "spare_steady": spare, "disturb_p": disturb_p, "inner_p": inner_p, "end_after_finish": end_after_finish,
                  "odd_iter_w": odd_w}

    ticks = []
    coop_m = {"started": started, "stopped": False}
    tasks = []
    outstanding = {}   # did -> (Deferred, MT)
    chained = {}       # did -> the called-but-pending Deferred that was actually yielded (waits on outstanding[did][0])
    st = {"did": 0, "ticks": 0, "pr": 0, "fired": 0, "stopped": 0, "coopstop": 0, "in_tick": False, "finops": 0,
          "armed": 0, "reacted": 0, "harness_exc": None, "pending_completed": False, "inner": 0, "ended_after_finish": False}
    ctx = []           # which operation of the application is on the stack (innermost last): tick, task_stop, fire, resume, coop_stop
    pending = set()    # tids of the tasks that were running when the Cooperator.stop() now on the stack began and that it has not completed yet
    pend_paused = []   # such tasks that a callback paused in the meantime

    def scheduler(fn):
        t = Tick(fn)
        ticks.append(t)
        sim.event("schedule-tick")
        return t

    def predicate_factory():
        n = [0]

        def done():
            n[0] += 1
            return n[0] >= units
        return done

    coop = task.Cooperator(terminationPredicateFactory=predicate_factory, scheduler=scheduler, started=started)

    # ---------------------------------------------------------------- fairness bookkeeping
    def runnables():
        return [mt for mt in tasks if mt.runnable()]

    def joined(mt):
        n = len(runnables())
        for o in tasks:
            if o is not mt and o.win is not None:
                o.win["app"] += 1
                o.win["nmax"] = max(o.win["nmax"], n)
        mt.win = {"ticks": 0, "rem": 0, "app": 0, "nmax": n, "served": {}}

    def left(mt):
        mt.win = None
        for o in tasks:
            if o.win is not None:
                o.win["rem"] += 1
                o.win["served"].pop(mt.tid, None)

    def overtaking(mt):
        """Task mt is being advanced.  Relative service: while two tasks are runnable side by side without interruption, the
        scheduler may advance one of them only a bounded number of times before it advances the other - whatever joins or leaves
        around them (joins and removals of third parties do not enter this bound, unlike the tick-count window of op_tick).
        served[a] of task o = advances of a since o was last advanced (or became runnable), a runnable all that time.
        Bound for a round-robin over the runnable tasks that survives removals: nmax + 1 (o can lose its turn to a removal at
        most once per place it has ahead of it in the round, fewer than nmax; between two advances of a a new round starts)."""
        for o in tasks:
            if o is mt or o.win is None:
                continue
            k = o.win["served"].get(mt.tid, 0) + 1
            o.win["served"][mt.tid] = k
            if k > 2:
                sim.probe("task_overtaken_more_than_twice")
            sim.check("no-starvation", k <= o.win["nmax"] + 1, "overtaken-by-runnable-neighbour",
                      lambda: "task %d was advanced %d times while task %d, runnable all that time beside it, was not advanced once "
                      "(at most %d tasks runnable in that time)" % (mt.tid, k, o.tid, o.win["nmax"]))

    class no_raise:
        """sim.guard("no-raise", witness) that also judges the BaseException subclasses of the exception universe (sim.guard
        leaves everything outside Exception alone): what a task raises must end that task, not escape from the operation."""

        def __init__(self, witness):
            self.witness = witness
            self.inner = sim.guard("no-raise", witness)

        def __enter__(self):
            return self

        def __exit__(self, et, ev, tb):
            if et is not None and issubclass(et, BARE):
                sim.fail("no-raise", "%s:%s" % (self.witness, et.__name__),
                         "%s (a task's or Deferred's exception) escaped from the operation" % et.__name__)
            return self.inner.__exit__(et, ev, tb)

    def make_exc(msg, where):
        """The exception a scripted iterator raises / a yielded Deferred fails with: drawn from the run's exception universe."""
        name = "ScriptError"
        if bare_w:
            name = sim.draw_weighted([("ScriptError", 4)] + [(c.__name__, bare_w) for c in BARE], "exc_type")
        for c in BARE:
            if c.__name__ == name:
                sim.fault("bare_exception_" + where)
                return c(msg)
        return ScriptError(msg)

    def finish(mt, kind, expect):
        was = mt.runnable()
        mt.finished = kind
        mt.expect = expect
        if was:
            left(mt)
        sim.event("finished", mt.tid, kind)

    # ---------------------------------------------------------------- scripted iterator
    class ScriptIter:
        def __init__(self, mt):
            self.mt = mt
            self.exhausted = False

        def __iter__(self):
            return self

        def __next__(self):
            mt = self.mt
            sim.event("next", mt.tid)
            sim.check("advance-only-runnable", mt.finished is None, "finished",
                      "task %d advanced after it finished (%s)" % (mt.tid, mt.finished))
            sim.check("advance-only-runnable", mt.user_pauses == 0, "paused", "task %d advanced with user pause count %d" % (mt.tid, mt.user_pauses))
            sim.check("advance-only-runnable", mt.waiting is None, "waiting-on-deferred", "task %d advanced while the Deferred it yielded is unfired" % mt.tid)
            sim.check("advance-only-in-tick", st["in_tick"], "outside-tick", "task %d advanced outside a scheduler tick" % mt.tid)
            mt.nexts += 1
            overtaking(mt)
            if mt.win is not None:
                n = len(runnables())
                mt.win = {"ticks": 0, "rem": 0, "app": 0, "nmax": n, "served": {}}
            if inner_p and st["inner"] < 6 and sim.violation is None and st["harness_exc"] is None and sim.draw_bool(inner_p, "inner?"):
                # the iterator itself calls back into the Cooperator before it answers
                st["inner"] += 1
                sim.fault("operation_from_inside_next")
                try:
                    react(mt, "next")
                except (Violation, StepLimit):
                    raise
                except BaseException as e:   # _oneWorkUnit would take it for the iterator's own failure: keep it for the top level (harness error)
                    st["harness_exc"] = e
                if mt.finished is not None:
                    return self.after_finish()
            if mt.steady:
                sim.event("yield", mt.tid, "value")
                sim.probe("steady_task_advanced")
                return mt.nexts
            kind = sim.draw_weighted([("value", 12), ("deferred", 4), ("exhaust", 2), ("fired-deferred", 1), ("raise", 1), ("failed-deferred", 1)], "next")
            sim.event("yield", mt.tid, kind)
            if kind == "value":
                return mt.nexts
            if kind == "exhaust":
                finish(mt, "done", ("iter", self))
                self.exhausted = True
                raise StopIteration()
            if kind == "raise":
                exc = make_exc("task %d" % mt.tid, "raised_by_iterator")
                finish(mt, "failed", ("exc", exc))
                raise exc
            if kind == "fired-deferred":
                # pause+resume inside the Cooperator: the task leaves and re-enters the runnable set
                if mt.runnable():   # (not so if the iterator has just paused its own task)
                    left(mt)
                    joined(mt)
                return defer.succeed(None)
            if kind == "failed-deferred":
                exc = make_exc("task %d deferred" % mt.tid, "in_failed_deferred")
                finish(mt, "failed", ("exc", exc))
                return defer.fail(exc)
            d = defer.Deferred()
            st["did"] += 1
            did = st["did"]
            if mt.runnable():
                left(mt)
            mt.waiting = did
            outstanding[did] = (d, mt)
            sim.probe("yielded_deferred")
            if sim.draw_bool(0.25, "called_but_pending"):
                # the yielded Deferred has already been called back, but its callback chain is waiting on `d`
                # (`called` is true, there is no result yet): the task waits until `d` fires
                sim.probe("yielded_deferred_called_but_waiting_on_another")
                outer = defer.succeed("pre")
                outer.addCallback(lambda _ignored: d)
                chained[did] = outer
                return outer
            return d

        def after_finish(self):
            """The task was finished while this next() was on the stack (the iterator stopped its own task or the Cooperator, or a
            completion callback fired from in here did).  It stays finished the way it was, with the result its Deferreds have
            fired with, whatever this next() now ends with; nothing may escape from the tick."""
            mt = self.mt
            sim.probe("task_finished_inside_its_own_next")
            kind = "value"
            if end_after_finish and not mt.steady:
                kind = sim.draw_weighted([("value", 1), ("exhaust", 3), ("raise", 3), ("deferred", 2), ("fired-deferred", 1)], "next_after_finish")
            sim.event("yield-after-finish", mt.tid, kind)
            if kind == "value":
                return mt.nexts
            st["ended_after_finish"] = True
            sim.fault("next_ends_otherwise_than_with_a_value_after_its_task_finished")
            if kind == "exhaust":
                self.exhausted = True
                raise StopIteration()
            if kind == "raise":
                raise make_exc("task %d after finishing" % mt.tid, "raised_by_iterator")
            if kind == "fired-deferred":
                return defer.succeed(None)
            return defer.Deferred()   # nobody fires it

    class LenIter(ScriptIter):
        """A backlog-style iterator: len() = items still to come; empty, hence false, once it is exhausted."""

        def __len__(self):
            return 0 if self.exhausted else 1

    class FalseIter(ScriptIter):
        def __bool__(self):
            return False

    class EqIter(ScriptIter):
        """Compares equal to everything."""

        def __eq__(self, other):
            return True

        def __ne__(self, other):
            return False

        def __hash__(self):
            return 0

    SHAPES = {"plain": ScriptIter, "len": LenIter, "bool": FalseIter, "eq": EqIter}

    # ---------------------------------------------------------------- helpers
    def watch(mt, d):
        lst = []
        mt.watchers.append(lst)
        # armed: when this completion Deferred fires, the application calls back into the Cooperator from inside the callback
        armed = bool(reent and mt.finished is None and st["armed"] < 6 and sim.draw_bool(0.4, "react"))
        if armed:
            st["armed"] += 1

        def rec(res):
            lst.append(res)
            pending.discard(mt.tid)
            if armed and len(lst) == 1 and sim.violation is None and st["harness_exc"] is None:
                try:
                    react(mt)
                except (Violation, StepLimit):
                    raise
                except BaseException as e:   # the Deferred would swallow it: keep it for the top level (harness error)
                    st["harness_exc"] = e
            return None
        d.addBoth(rec)

    def react(src, where=None):
        """Inside a completion callback of task `src` - or (where == "next") inside next() of the iterator of the unfinished
        task `src` -: 1..2 tape-chosen operations on the Cooperator and its tasks.  The model
        was brought up to date before the real call that is now firing the callback, so every operation is judged exactly as
        at top level; the only extra state is `pending` (tasks a Cooperator.stop() in progress has yet to complete).  From
        inside next() the iterator's own task is a candidate like any other, and preferred for pause() and stop()."""
        if where is None:
            where = ctx[-1] if ctx else "attach"
        sim.probe("callback_reenters_during_" + where)
        for _ in range(sim.draw_int(1, 2, "nreact")):
            if sim.violation is not None:
                return
            handles = [mt for mt in tasks if mt.task is not None]
            unfinished = [mt for mt in handles if mt.finished is None]
            resumable = [mt for mt in unfinished if mt.user_pauses > 0]
            finished = [mt for mt in handles if mt.finished is not None and mt.tid not in pending]
            pend = [mt for mt in handles if mt.tid in pending]
            pres = [mt for mt in pend_paused if mt.tid in pending]
            nrun = len(runnables())
            can_coop_stop = (not coop_m["stopped"]) and st["coopstop"] < 3 and (nrun <= 1 if avoid else True)
            own = where == "next" and src.task is not None and src.finished is None
            ops = [("none", 1),
                   ("add", 5 if len(tasks) < MAX_TASKS else 0),
                   ("resume", 5 if resumable else 0),
                   ("fire", 5 if outstanding else 0),
                   ("pause", 2 if unfinished else 0),
                   ("stop", 2 if unfinished else 0),
                   ("whenDone", 1 if handles else 0),
                   ("finished-op", 2 if finished else 0),
                   ("coop-stop", 2 if can_coop_stop else 0),
                   ("pause-pending", 2 if pend else 0),
                   ("stop-pending", 3 if (pend and stop_pending) else 0),
                   ("resume-pending", 3 if (pres and stop_pending) else 0),
                   ("pause-self", 5 if own else 0),
                   ("stop-self", 4 if own else 0)]
            op = sim.draw_weighted(ops, "react_op")
            sim.event("react", src.tid, where, op)
            if op == "none":
                continue
            st["reacted"] += 1
            sim.fault("reentrant_op")
            sim.probe("reentrant_" + op)
            if where == "coop_stop" and op in ("add", "resume", "fire"):
                sim.probe("task_enters_cooperator_while_it_stops")
            if op == "add":
                add_task()
            elif op == "pause-self":
                op_pause(src)
            elif op == "stop-self":
                op_stop(src)
            elif op == "resume":
                op_resume(sim.draw_choice(resumable, "which"))
            elif op == "fire":
                op_fire(sim.draw_choice(sorted(outstanding), "which"))
            elif op == "pause":
                op_pause(sim.draw_choice(unfinished, "which"))
            elif op == "stop":
                op_stop(sim.draw_choice(unfinished, "which"))
            elif op == "whenDone":
                op_whendone(sim.draw_choice(handles, "which"))
            elif op == "finished-op":
                op_finished(sim.draw_choice(finished, "which"))
            elif op == "coop-stop":
                op_coop_stop()
            elif op == "pause-pending":
                op_pending(sim.draw_choice(pend, "which"), "pause")
            elif op == "stop-pending":
                op_pending(sim.draw_choice(pend, "which"), "stop")
            else:
                op_pending(sim.draw_choice(pres, "which"), "resume")

    def matches(res, expect):
        if expect[0] == "iter":
            return res is expect[1]
        if not isinstance(res, Failure):
            return False
        if expect[0] == "exc":
            return res.value is expect[1]
        if expect[0] == "types":
            return type(res.value) in expect[1]
        return type(res.value) is expect[1]

    def show(res):
        if isinstance(res, Failure):
            return "Failure(%s)" % res.type.__name__
        return type(res).__name__

    def audit():
        if sim.violation is not None:
            raise sim.violation
        if st["harness_exc"] is not None:
            raise st["harness_exc"]
        for mt in tasks:
            for w in mt.watchers:
                sim.check("whenDone-at-most-once", len(w) <= 1, "watcher", lambda: "task %d Deferred fired %d times" % (mt.tid, len(w)))
                if mt.finished is None:
                    sim.check("whenDone-not-early", not w, "watcher", lambda: "task %d is unfinished but its Deferred fired with %s" % (mt.tid, show(w[0])))
                else:
                    sim.check("whenDone-fires", len(w) == 1, mt.finished, lambda: "task %d finished (%s) but a whenDone/coiterate Deferred has not fired" % (mt.tid, mt.finished))
                    sim.check("whenDone-result", matches(w[0], mt.expect), mt.finished,
                              lambda: "task %d finished (%s); Deferred fired with %s, expected %r" % (mt.tid, mt.finished, show(w[0]), mt.expect))
        if coop_m["started"] and not coop_m["stopped"] and runnables():
            sim.check("tick-scheduled", any(t.active() for t in ticks), "runnable-tasks",
                      "runnable tasks %r but no scheduler tick is pending" % ([mt.tid for mt in runnables()],))
        ticks[:] = [t for t in ticks if t.active()]
        sim.state((min(len(runnables()), 4), min(sum(1 for mt in tasks if mt.user_pauses and mt.finished is None), 3),
                   min(sum(1 for mt in tasks if mt.waiting is not None and mt.finished is None), 3),
                   min(sum(1 for mt in tasks if mt.finished), 4), coop_m["started"], coop_m["stopped"]))

    def enter(mt):
        """mt has just become runnable in the model."""
        if coop_m["stopped"]:
            finish_nonrunnable(mt, "sched", ("type", task.SchedulerStopped))
        else:
            joined(mt)

    def finish_nonrunnable(mt, kind, expect):
        mt.finished = kind
        mt.expect = expect
        mt.win = None
        sim.event("finished", mt.tid, kind)

    def add_task():
        tid = len(tasks)
        via = sim.draw_choice(["cooperate", "coiterate"], "via") if sim.draw_bool(0.3, "coiterate?") else "cooperate"
        mt = MT(tid, via)
        mt.steady = bool(steady_p) and sim.draw_bool(steady_p, "steady")
        shape = "plain"
        if odd_w:
            shape = sim.draw_weighted([("plain", 4), ("len", odd_w), ("bool", odd_w), ("eq", odd_w)], "iter_shape")
        if shape != "plain":
            sim.probe("iterator_shape_" + shape)
        mt.shape = shape
        it = SHAPES[shape](mt)
        mt.it = it
        tasks.append(mt)
        sim.event("add", tid, via)
        if coop_m["stopped"]:
            finish_nonrunnable(mt, "sched", ("type", task.SchedulerStopped))
            sim.probe("add_to_stopped_cooperator")
        else:
            joined(mt)
        with no_raise("add"):
            if via == "cooperate":
                mt.task = coop.cooperate(it)
                watch(mt, mt.task.whenDone())
            else:
                watch(mt, coop.coiterate(it))

    # ---------------------------------------------------------------- operations
    def op_tick():
        live = [t for t in ticks if t.active()]
        t = live[0]
        t.ran = True
        st["ticks"] += 1
        sim.event("tick")
        before = [mt for mt in tasks if mt.win is not None]
        st["in_tick"] = True
        ctx.append("tick")
        st["ended_after_finish"] = False
        try:
            with no_raise("tick"):
                try:
                    t.fn()
                except Violation:
                    raise
                except CAUGHT as e:
                    if st["ended_after_finish"]:
                        sim.fail("finished-in-own-next", "tick-raised:" + type(e).__name__,
                                 "the scheduler tick raised %s: %s after a task had been finished while its own next() was on the stack and that "
                                 "next() then ended with StopIteration, an exception or a Deferred" % (type(e).__name__, str(e)[:120]))
                    raise
        finally:
            ctx.pop()
            st["in_tick"] = False
        if sim.violation is not None:
            raise sim.violation
        for mt in before:
            if mt.win is None or not mt.runnable():
                continue
            w = mt.win
            w["ticks"] += 1
            bound = (w["rem"] + 2) * max(w["nmax"], 1) + w["app"] + 1
            sim.check("no-starvation", w["ticks"] <= bound, "runnable-task",
                      lambda: "task %d stayed runnable for %d ticks without being advanced (bound %d: removals %d, joins %d, max runnable %d)"
                      % (mt.tid, w["ticks"], bound, w["rem"], w["app"], w["nmax"]))

    def op_pause(mt):
        sim.event("pause", mt.tid)
        if mt.runnable():
            left(mt)
        mt.user_pauses += 1
        with no_raise("pause"):
            mt.task.pause()

    def op_resume(mt):
        sim.event("resume", mt.tid)
        st["pr"] += 1
        mt.user_pauses -= 1
        if mt.runnable():
            enter(mt)
        ctx.append("resume")
        try:
            with no_raise("resume"):
                mt.task.resume()
        finally:
            ctx.pop()

    def op_resume_unpaused(mt):
        sim.event("resume-unpaused", mt.tid)
        sim.probe("resume_unpaused")
        got = None
        try:
            mt.task.resume()
        except CAUGHT as e:
            got = type(e)
        sim.check("resume-unpaused-raises", got is task.NotPaused, "NotPaused", "resume() on an unpaused task raised %r" % (got,))

    def op_resume_waiting(mt):
        sim.event("resume-unpaused-waiting", mt.tid)
        sim.probe("resume_unpaused_while_waiting")
        got = None
        try:
            mt.task.resume()
        except CAUGHT as e:
            got = type(e)
        sim.check("unbalanced-resume-while-waiting", got is task.NotPaused, "accepted",
                  "resume() on task %d, which the caller has not paused and which waits on a Deferred it yielded, raised %r (expected NotPaused)" % (mt.tid, got))

    def op_stop(mt):
        sim.event("stop", mt.tid, "waiting" if mt.waiting is not None else "-", mt.user_pauses)
        st["stopped"] += 1
        if mt.waiting is not None:
            sim.probe("stop_while_waiting")
        finish(mt, "stopped", ("type", task.TaskStopped))
        ctx.append("task_stop")
        try:
            with no_raise("stop"):
                mt.task.stop()
        finally:
            ctx.pop()

    def op_finished(mt):
        which = sim.draw_choice(["stop", "pause"], "which")
        sim.event("op-on-finished", mt.tid, which, mt.finished)
        sim.probe("op_on_finished")
        st["finops"] += 1
        got = None
        try:
            getattr(mt.task, which)()
        except CAUGHT as e:
            got = type(e)
        if mt.finished == "sched":
            ok = got is not None and issubclass(got, task.SchedulerError)
            want = "SchedulerError"
        else:
            ok = got is FINISHED_EXC[mt.finished]
            want = FINISHED_EXC[mt.finished].__name__
        sim.check("finished-op-raises", ok, mt.finished, "%s() on a task finished as %s raised %r, expected %s" % (which, mt.finished, got, want))
        prev = mt.raised.setdefault("any", got)
        sim.check("finished-op-same", prev is got, mt.finished, "operations on finished task %d raised %r earlier and %r now" % (mt.tid, prev, got))

    def op_whendone(mt):
        sim.event("whenDone", mt.tid)
        if mt.finished is not None:
            sim.probe("late_whenDone_" + mt.finished)
            if mt.finished == "done" and mt.shape in ("len", "bool"):
                sim.probe("late_whenDone_iterator_is_false")
        with no_raise("whenDone"):
            watch(mt, mt.task.whenDone())

    def op_fire(did):
        d, mt = outstanding.pop(did)
        late = mt.finished == "stopped"
        fail = sim.draw_bool(0.3, "fail")
        if late and avoid:
            fail = False
        sim.event("fire", mt.tid, "fail" if fail else "ok", "late" if late else "-")
        st["fired"] += 1
        mt.waiting = None
        exc = None
        if fail:
            exc = make_exc("deferred of task %d" % mt.tid, "fails_yielded_deferred")
            if mt.finished is None:
                finish_nonrunnable(mt, "failed", ("exc", exc))
        elif mt.runnable():
            enter(mt)
        ctx.append("fire")
        try:
            with no_raise("fire"):
                if fail:
                    d.errback(exc)
                else:
                    d.callback(None)
        finally:
            ctx.pop()
        leftover = []
        chained.pop(did, d).addErrback(lambda f: leftover.append(f) and None)
        if late and fail:
            sim.fault("late_failure_after_stop")
            got = None
            try:
                mt.task.stop()
            except CAUGHT as e:
                got = type(e)
            sim.check("stopped-state-stable", got is task.TaskStopped and not leftover, "late-deferred-failure",
                      "task %d was stopped while waiting on a Deferred it yielded; after that Deferred failed, stop() raises %s (expected TaskStopped) and the Deferred's chain ended with %s"
                      % (mt.tid, getattr(got, "__name__", got), show(leftover[0]) if leftover else "no error"))
        sim.check("yielded-deferred-clean", not leftover, "chain-error",
                  lambda: "firing the Deferred yielded by task %d left %s in its callback chain" % (mt.tid, show(leftover[0])))

    def op_coop_stop():
        r = runnables()
        sim.event("cooperator.stop", len(r))
        st["coopstop"] += 1
        sim.fault("cooperator_stop")
        coop_m["stopped"] = True
        for mt in r:
            mt.finished = "sched"
            mt.expect = ("type", task.SchedulerStopped)
            mt.win = None
        # tasks of `r` are finished for the model from here on, but the real Cooperator reaches them one by one: a completion
        # callback that runs in between sees the later ones as `pending`
        outer = (set(pending), list(pend_paused), st["pending_completed"])
        pending.clear()
        pending.update(mt.tid for mt in r)
        del pend_paused[:]
        st["pending_completed"] = False
        ctx.append("coop_stop")
        try:
            coop.stop()
        except Violation:
            raise
        except CAUGHT as e:
            if st["pending_completed"]:
                sim.fail("coop-stop-reentrant", "task-completed-by-callback:" + type(e).__name__,
                         "Cooperator.stop() raised %s: %s after a completion callback it fired had completed a task that stop() had not reached yet"
                         % (type(e).__name__, str(e)[:120]))
            sim.fail("no-raise", "cooperator.stop:" + type(e).__name__, "%s: %s" % (type(e).__name__, str(e)[:200]))
        finally:
            ctx.pop()
            pending.clear()
            pending.update(outer[0])
            pend_paused[:] = outer[1]
        by_callback, st["pending_completed"] = st["pending_completed"], outer[2]
        if by_callback:
            fired0 = [mt for mt in r if all(len(w) == 1 for w in mt.watchers)]
            sim.check("coop-stop-reentrant", len(fired0) == len(r), "task-completed-by-callback:skipped",
                      lambda: "Cooperator.stop() with %d running tasks, one of which a completion callback completed first: tasks %r never complete"
                      % (len(r), [mt.tid for mt in r if mt not in fired0]))
        fired = [mt for mt in r if all(len(w) == 1 for w in mt.watchers)]
        sim.check("coop-stop-completes-all", len(fired) == len(r), "skipped",
                  lambda: "Cooperator.stop() with %d running tasks completed only tasks %r; tasks %r never complete"
                  % (len(r), [mt.tid for mt in fired], [mt.tid for mt in r if mt not in fired]))

    def op_pending(mt, which):
        """pause()/stop()/resume() of a task that was running when the Cooperator.stop() on the stack began and that stop() has
        not completed yet.  The statement does not say whether such a task counts as finished already: the call may succeed or
        raise a SchedulerError, and the task's Deferreds still fire exactly once with the stop reason (SchedulerStopped, or
        TaskStopped if the callback's stop() got there first)."""
        sim.event("op-on-pending", mt.tid, which)
        if which == "stop":
            mt.expect = ("types", (task.SchedulerStopped, task.TaskStopped))
        if which in ("stop", "resume"):
            st["pending_completed"] = True
            sim.fault("pending_task_completed_by_callback")
        got = None
        try:
            getattr(mt.task, which)()
        except Violation:
            raise
        except CAUGHT as e:
            got = type(e)
        if which == "pause" and got is None:
            pend_paused.append(mt)
        elif which == "resume":
            pend_paused.remove(mt)
        sim.check("pending-op", got is None or issubclass(got, task.SchedulerError), which,
                  "%s() on a task the Cooperator.stop() in progress has not completed yet raised %r" % (which, got))

    def op_coop_start():
        sim.event("cooperator.start")
        coop_m["started"] = True
        coop_m["stopped"] = False
        with no_raise("cooperator.start"):
            coop.start()

    def disturb(running):
        """A change of the task set right before a tick: a running task leaves the Cooperator and comes straight back
        (pause()+resume()), or a task is added and stopped at once."""
        kinds = [("throttle", 3 if running else 0), ("add-stop", 1 if len(tasks) < MAX_TASKS else 0)]
        if not any(w for _, w in kinds):
            return
        kind = sim.draw_weighted(kinds, "disturbance")
        sim.fault("task_set_changed_right_before_tick")
        if kind == "throttle":
            mt = sim.draw_choice(others(running), "which")
            op_pause(mt)
            op_resume(mt)
        else:
            add_task()
            mt = tasks[-1]
            if mt.task is not None and mt.finished is None:
                op_stop(mt)

    def others(cands):
        if spare:
            rest = [mt for mt in cands if not mt.steady]
            if rest:
                return rest
        return cands

    # ---------------------------------------------------------------- main loop
    for _ in range(ntasks0):
        add_task()
    audit()
    for _ in range(nops):
        sim.step(500 * sim.depth)
        live_tick = any(t.active() for t in ticks)
        handles = [mt for mt in tasks if mt.task is not None]
        unfinished = [mt for mt in handles if mt.finished is None]
        resumable = [mt for mt in unfinished if mt.user_pauses > 0]
        unpaused = [mt for mt in unfinished if mt.user_pauses == 0 and mt.waiting is None]
        finished = [mt for mt in handles if mt.finished is not None]
        waiting_unpaused = [mt for mt in unfinished if mt.user_pauses == 0 and mt.waiting is not None] if UNBALANCED_RESUME_W else []
        nrun = len(runnables())
        can_coop_stop = (not coop_m["stopped"]) and st["coopstop"] < 2 and (nrun <= 1 if avoid else True)
        alive = sum(1 for mt in tasks if mt.finished is None)
        ops = [("tick", 14 if live_tick else 0),
               ("fire", 6 if outstanding else 0),
               ("add", (3 if alive else 8) if len(tasks) < MAX_TASKS else 0),
               ("pause", 3 if unfinished else 0),
               ("resume", 5 if resumable else 0),
               ("stop", 2 if unfinished else 0),
               ("whenDone", 1 if handles else 0),
               ("finished-op", 2 if (finished and st["finops"] < 6) else 0),
               ("resume-unpaused", 1 if unpaused else 0),
               ("coop-start", 3 if (coop_m["stopped"] or not coop_m["started"]) else 0),
               ("coop-stop", 1 if can_coop_stop else 0),
               ("resume-waiting", UNBALANCED_RESUME_W if waiting_unpaused else 0)]
        if not any(w for _, w in ops):
            break
        op = sim.draw_weighted(ops, "op")
        if op == "tick":
            if disturb_p and sim.draw_bool(disturb_p, "disturb"):
                disturb(unpaused)
                audit()
                if not any(t.active() for t in ticks):
                    continue
            op_tick()
        elif op == "fire":
            op_fire(sim.draw_choice(sorted(outstanding), "which"))
        elif op == "add":
            add_task()
        elif op == "pause":
            op_pause(sim.draw_choice(others(unfinished), "which"))
        elif op == "resume":
            op_resume(sim.draw_choice(resumable, "which"))
        elif op == "stop":
            op_stop(sim.draw_choice(others(unfinished), "which"))
        elif op == "whenDone":
            op_whendone(sim.draw_choice(handles, "which"))
        elif op == "finished-op":
            op_finished(sim.draw_choice(finished, "which"))
        elif op == "resume-unpaused":
            op_resume_unpaused(sim.draw_choice(unpaused, "which"))
        elif op == "coop-start":
            op_coop_start()
        elif op == "resume-waiting":
            op_resume_waiting(sim.draw_choice(waiting_unpaused, "which"))
        else:
            op_coop_stop()
        audit()
    sim.nontrivial = (len(tasks) >= 2 and st["ticks"] >= 3 and bool(st["pr"] or st["fired"] or st["stopped"] or st["coopstop"]))


MUTANTS = [
    "round 6 (operations from inside next(), iterator shapes):",
    "task.py whenDone decides 'finished' by the truth value of the recorded result (seeded r6b): CAUGHT whenDone-fires:done (run 28)",
    "task.py whenDone: 'if self._completionState is None' -> 'if not self._completionState' : SURVIVES (SchedulerError instances are always true: equivalent)",
    "task.py _oneWorkUnit: 'self.pause()' inlined as '_pauseCount += 1; _cooperator._removeTask(self)' (wrong only for a task that paused itself inside the "
    "next() that yields the Deferred): CAUGHT no-raise:tick:ValueError (run 27)",
    "task.py _completeWith: 'if not self._pauseCount' -> 'if self in self._cooperator._tasks or self._pauseCount < 2': CAUGHT whenDone-fires:failed / no-raise:stop:ValueError (run 104)",
    "task.py Cooperator.cooperate returns the running task whose iterator == the new one: CAUGHT whenDone-not-early:watcher / tick-scheduled:runnable-tasks (run 104; __eq__ shape)",
    "task.py _completeWith: d.callback(deferredResult or None): CAUGHT whenDone-result:done (run 96; __len__/__bool__ shapes)",
    "repair of the in-next defect, in /repo 19f183d (_oneWorkUnit completes / pauses only 'if self._completionState is None' after next()): quick tier PASSES with "
    "END_AFTER_FINISH_P = 0.25 (2663 such next() endings)",
    "task.py _oneWorkUnit re-checks nothing after next() (the tree as first examined, i.e. 19f183d reverted): finished-in-own-next:tick-raised:ValueError / :AlreadyCalledError / :TaskStopped / "
    ":SchedulerStopped with END_AFTER_FINISH_P > 0 - genuine defect, REPAIRED in /repo 19f183d, see KNOWN_IN_NEXT",
    "round 5 (steady tasks, disturbance before ticks, relative-service clause, BaseException universe):",
    "task.py _removeTask also restarts the round (self._metarator = iter(self._tasks), seeded r5a): CAUGHT no-starvation:overtaken-by-runnable-neighbour (run 28)",
    "task.py _tasksWhileNotStopped restarts the round at the beginning of every tick: CAUGHT no-starvation:overtaken-by-runnable-neighbour (run 38; needed ~2000 runs before)",
    "task.py _oneWorkUnit: except BaseException -> except Exception around next() (seeded r5b): CAUGHT no-raise:tick:CancelledError / :KeyboardInterrupt (run 104)",
    "task.py _oneWorkUnit: except BaseException -> except (Exception, KeyboardInterrupt, SystemExit): CAUGHT no-raise:tick:ScriptHalt (run 21)",
    "task.py _addTask inserts the new task at the head of the list instead of appending: SURVIVES (newcomers are served first, but with at most 8 tasks "
    "nobody waits beyond the bound: not a starvation, the statement does not fix the service order)",
    "re-entrant family: task.py Cooperator.stop: 'self._stopped = True' moved behind the loop (a task entering from a completion callback while stop() runs is accepted and then dropped): CAUGHT whenDone-fires:sched / finished-op-raises:sched / advance-only-runnable:finished (run 21)",
    "re-entrant family: task.py _completeWith fires the Deferreds before removing the task from the Cooperator: CAUGHT no-raise:cooperator.stop:AlreadyCalledError / no-raise:stop:ValueError (run 17)",
    "re-entrant family: task.py Cooperator.stop: guard 'if taskObj._completionState is not None: continue' removed (the tree before the fix, see KNOWN_REENTRANT): "
    "CAUGHT coop-stop-reentrant:task-completed-by-callback:ValueError / :AlreadyCalledError; with the guard the quick tier passes with the knob forced on",
    '(all run with the avoid_known knob forced on - now the constant FORCE_AVOID_KNOWN - so that the two predicted defects, at that time not yet repaired, did not end the runs first)',
    "task.py _oneWorkUnit: 'self.pause()' before addCallbacks removed (task not paused while waiting on its Deferred): CAUGHT advance-only-runnable:waiting-on-deferred",
    'task.py _tasksWhileNotStopped: _metarator re-created every tick (only the first task advances with 1 unit/tick): CAUGHT no-starvation (after ~2000 runs)',
    "task.py CooperativeTask.stop: '_checkFinish()' removed (stop on a finished task completes it again): CAUGHT finished-op-raises",
    "task.py pause: 'if self._pauseCount == 1' -> '>= 1': CAUGHT no-raise:pause:ValueError",
    "task.py resume: 'if self._pauseCount == 0 and ...' -> '<= 1' (re-added while still paused): CAUGHT advance-only-runnable:paused / whenDone-not-early",
    'task.py _addTask on a stopped Cooperator does not complete the task: CAUGHT whenDone-fires:sched',
    "task.py resume: 'and self._completionState is None' removed (finished task re-added): CAUGHT advance-only-runnable:finished / yielded-deferred-clean",
    "task.py _tick: trailing 'self._reschedule()' removed: CAUGHT tick-scheduled",
    'task.py _oneWorkUnit: StopIteration completes with TaskFailed(): CAUGHT finished-op-raises:done',
    'repairs of the two predicted defects, in /repo 4620a5f (Cooperator.stop iterates over list(self._tasks); failLater ignores an already completed task): full check PASSES without the avoid knob (16000 runs, 940 late failures after stop)',
]
