"""C09 — task.Clock runs scheduled calls exactly once in time order.

Engine E2 (clock): one real twisted.internet.task.Clock.  The tape chooses
callLater / cancel / reset / delay (also from inside running calls, also on
calls that already ran or were cancelled) and advance(0 | k/8 | exactly to the
earliest pending call | far) or pump([...]).  Calls run *inside* advance, with
the clock already at the new time; calls created inside an advance whose time
is reached by it must run in it.  With a per-run probability a call FAILS (ends
by raising, after its in-call operations): Clock has no error handler, the
exception leaves advance()/pump() and cuts that advance short.  No verdict is
given on the exception reaching the caller nor on the calls that advance had
reached and not yet run (the statement is silent); but the failing call has
run, the others are still pending and listed, and the Clock must stay usable:
the next advance that completes has to run everything it reaches.

Time passing inside a call (per-run knob, off in a third of the runs): a running
call may itself call advance(amount) - "this callable took that long", the idiom
of the LoopingCall tests - and then go on scheduling and modifying calls at the
new time.  The clock moves while the outer advance is in progress; every advance,
nested or outermost, that returns normally must have run each call whose time the
clock had reached by then (also calls created or pulled in after the nested advance
returned).  A failing call cuts the nested advance short; the call that issued it
either lets the exception through (the outer advance is cut short too) or contains
it and carries on - the outer advance then still has to run what was left.

Oracle: models.timers.TimerModel (mode "clock"), shared with C08, consulted on
every call the Clock runs, at the end of every advance and after every
operation (getDelayedCalls, getTime, seconds).
"""
from twisted.internet import task

from detsim.sim import Violation, StepLimit
from props._timers import TimerScenario, ScriptedFailure, EIGHTH, freeze_heap

ID = "C09"
ENGINE = "clock"
LEVEL = "exploration"
TECHNIQUE = "deterministic simulation: seeded timer operations and advances on a real task.Clock vs reference timer model"
QUICK_RUNS = 32000
NESTED_CHOICES = (0.0, 0.2, 0.4)   # per-run probability that an operation issued from inside a running call is an advance of the clock
MAX_NEST = 3                       # advances inside calls run by advances inside calls ... at most this deep
TWIN_P = 0.08   # this share of the runs drives two independent instances of the scenario one after the other (detsim.runner._run_scenario)
USES_DEPTH = True   # thorough tier: history length bound scales with sim.depth (1..3) beyond the quick tier\'s run indices
BATCH = 100
RUN_WALL_LIMIT_S = 60   # a run takes milliseconds; the margin is for descheduling on a loaded host
COMPONENTS = {"real": ["twisted.internet.task.Clock.callLater/advance/pump/getDelayedCalls/_sortCalls/seconds",
                       "twisted.internet.base.DelayedCall.cancel/reset/delay/getTime/active"],
              "stub": ["nothing below Clock exists; the scenario is Clock's caller (tape-chosen operations)"]}
RULE = ("run = up to 100 tape-chosen operations over up to 40 calls (callLater with dyadic delay >= 0 / cancel / reset / delay(+-) on pending or dead calls, "
        "from the top level or from inside a running call / advance by 0, k/8, exactly to the earliest pending call, or far / pump of 2-3 amounts), "
        "in 2/3 of runs an operation issued from inside a running call is, with probability 0.2 or 0.4, an advance of the clock by 0, k/8 or exactly to the earliest "
        "pending call (nested at most 3 deep; followed by the call's further operations at the new time; a failing call inside it is let through or contained by tape), "
        "in 2/3 of runs each call ends by raising with probability 0.1 or 0.3 (the exception leaves advance(); the Clock is used on), then a drain (repeated while a failing call cuts it short); "
        "non-trivial = at least 3 calls ran AND a pending call was cancelled AND one was rescheduled AND two never-rescheduled calls with equal time ran")
ASSUMPTIONS = ["delays passed to callLater and reset are >= 0, advance amounts are >= 0; all times are multiples of 1/8 s (exact in binary floating point)",
               "'nondecreasing scheduled time' is checked within one advance and not for a call that a negative delay() moved, during that advance, "
               "to before a call that had already run (no implementation could satisfy that); 'no pending call is scheduled earlier when a call runs' is always checked",
               "an advance that a failing call's exception cut short is not 'the first advance that reaches' the time of the calls it left pending (no verdict for that advance); "
               "the next advance that returns normally is - also advance(0)",
               "an advance issued from inside a running call is an advance like any other: when it returns normally nothing whose time the clock has reached is pending, "
               "and the advance in progress around it has 'reached' every time the clock got to while it was in progress (a call created at or moved to such a time "
               "after the inner advance returned runs before the outer one returns); the order clauses apply across the nesting unchanged"]


class Scenario(TimerScenario):
    mode = "clock"

    def __init__(self, sim):
        TimerScenario.__init__(self, sim)
        self.c = task.Clock()
        self.max_calls = 40
        self.ties = 0
        self.leftover = []   # calls that were due when a failing call cut an advance short (evidence only)
        self.nested_p = 0.0  # drawn from NESTED_CHOICES in main()
        self.level = 0       # advances in progress that were issued from inside a running call

    def impl_call_later(self, delay, fn, cid):
        return self.c.callLater(delay, fn, cid)

    def impl_delayed_calls(self):
        return self.c.getDelayedCalls()

    def impl_seconds(self):
        return self.c.seconds()

    def _amounts(self):
        sim, m = self.sim, self.m
        kind = sim.draw_weighted([("small", 5), ("zero", 2), ("to-next", 3), ("far", 1), ("pump", 2)], "advance-kind")
        if kind == "small":
            return [sim.draw_int(1, 16, "dt") * EIGHTH]
        if kind == "zero":
            return [0.0]
        if kind == "to-next":
            e = m.earliest()
            sim.probe("advanced_exactly_to_next")
            return [max(0.0, e - m.now) if e is not None else 0.0]
        if kind == "far":
            sim.fault("clock_jump")
            return [16.0]
        sim.probe("pump")
        return [sim.draw_int(0, 8, "dt") * EIGHTH for _ in range(sim.draw_int(2, 3, "pump-n"))]

    # ---- time passing inside a running call
    def choose_basic_op(self):
        if self.nested_p and self.level < MAX_NEST and self.sim.draw_bool(self.nested_p, "nested-advance"):
            return "advance"
        return TimerScenario.choose_basic_op(self)

    def do_op(self, op, where):
        if op == "advance":
            self.sim.step(self.STEP_CAP * self.sim.depth)
            self.nested_advance()
        else:
            TimerScenario.do_op(self, op, where)

    def nested_advance(self):
        """The running call lets time pass: advance() from inside a call, while the advance that runs the call is in
        progress.  On return the caller (TimerScenario._fire) goes on with the call's remaining operations at the new time."""
        sim, m = self.sim, self.m
        kind = sim.draw_weighted([("small", 5), ("to-next", 3), ("zero", 1)], "nested-kind")
        if kind == "small":
            a = sim.draw_int(1, 16, "dt") * EIGHTH
        elif kind == "to-next":
            e = m.earliest()
            a = max(0.0, e - m.now) if e is not None else 0.0
        else:
            a = 0.0
        sim.fault("clock_advanced_inside_running_call")
        if self.level:
            sim.probe("advance_nested_two_deep")
        if any(m.time_of(c) <= m.now + a for c in m.pending_ids()):
            sim.probe("nested_advance_reaches_pending_call")
        sim.sim_time += a
        m.begin_nested(a)
        sim.event("nested-advance", a, "now=%r" % m.now)
        self.level += 1
        try:
            self.c.advance(a)
        except (Violation, StepLimit):
            raise
        except ScriptedFailure:
            self.level -= 1
            m.abort_nested()
            sim.fault("nested_advance_cut_short_by_failing_call")
            if sim.draw_bool(0.5, "contain"):
                sim.probe("failure_contained_by_call_that_advanced")
                sim.event("nested-advance-cut-short", "contained")
                return
            sim.event("nested-advance-cut-short", "let-through")
            raise
        except Exception as e:
            if self.harness_exc is not None:
                raise
            sim.fail("advance-raised", type(e).__name__, "%s: %s" % (type(e).__name__, e))
        self.level -= 1
        self.chk(m.end_nested(), "nested-advance")
        self.check_views("in-call")

    def run_passes(self, amounts, use_pump):
        """One advance per amount.  With pump() the generator below is the only
        place the scenario regains control between two advances.

        A scheduled call may fail (ScriptedFailure).  Clock has no error handler, so the
        exception reaches us through advance()/pump(); that cuts the advance (and the
        rest of the pump) short, and the statement is silent on the calls which that
        advance had reached and not yet run: no verdict for it (TimerModel.abort_pass).
        They are still pending - getDelayedCalls/active()/getTime() go on being compared
        - and the next advance that completes must run them, like every later call.
        Returns True if the advance was cut short."""
        sim, m = self.sim, self.m
        started = [0]
        cut_short = False

        def close():
            self.chk(m.end_pass(), "advance")
            self.tie_stats()
            if self.leftover:
                if any(m.state_of(c) == "ran" for c in self.leftover):
                    sim.probe("calls_left_by_failed_advance_ran_in_later_advance")
                self.leftover = []

        def opening(a):
            if started[0]:
                close()
            started[0] += 1
            sim.sim_time += a
            m.begin_pass(a)
            self.pass_start = len(m.ran_log)
            sim.event("advance", a, "now=%r" % m.now)
            return a

        try:
            if use_pump:
                self.c.pump(opening(a) for a in amounts)
            else:
                for a in amounts:
                    self.c.advance(opening(a))
        except (Violation, StepLimit):
            raise
        except ScriptedFailure:
            cut_short = True
        except Exception as e:
            if self.harness_exc is not None:   # raised by the scenario's own code inside a call
                raise
            sim.fail("advance-raised", type(e).__name__, "%s: %s" % (type(e).__name__, e))
        self.reraise()
        self.level = 0
        if cut_short and m.in_pass:
            sim.fault("advance_cut_short_by_failing_call")
            sim.event("advance-cut-short")
            m.abort_pass()
            self.tie_stats()
            self.leftover = [c for c in m.pending_ids() if m.time_of(c) <= m.now]
            if self.leftover:
                sim.probe("due_calls_left_pending_by_failed_advance")
        elif started[0]:
            close()
        return cut_short

    def tie_stats(self):
        """Evidence only: did this advance run two never-rescheduled calls with equal time?"""
        m = self.m
        seen = set()
        for cid, _ in m.ran_log[self.pass_start:]:
            c = m.calls[cid]
            if not c.rescheduled:
                if c.t in seen:
                    self.ties += 1
                    self.sim.probe("same_time_pair_ran")
                seen.add(c.t)

    def main(self):
        sim = self.sim
        nops = sim.draw_int(4, 100 * sim.depth, "nops")
        self.inner_p = sim.draw_choice([0.0, 0.3, 0.5], "inner-ops")
        self.max_calls = sim.draw_choice([40, 8, 20], "max-calls")
        self.nested_p = sim.draw_choice(NESTED_CHOICES, "nested-p")
        sim.config = {"nops": nops, "inner_p": self.inner_p, "max_calls": self.max_calls, "nested_p": self.nested_p}
        for _ in range(nops):
            room = len(self.order) < self.max_calls
            wc, wr = self.touch_weights()
            op = sim.draw_weighted([("callLater", 6 if room else 0), ("advance", 5), ("cancel", wc),
                                    ("reset", wr), ("delay", wr)], "op")
            if op == "advance":
                sim.step(self.STEP_CAP * sim.depth)
                amounts = self._amounts()
                self.run_passes(amounts, use_pump=len(amounts) > 1)
            else:
                self.do_op(op, "top")
            self.reraise()
            self.check_views("top")
            sim.state((min(len(self.m.pending_ids()), 8), self.inner_p > 0))
        # drain: far beyond every scheduled time; calls no longer issue operations but may still fail, and an advance that
        # a failing call cut short (which consumed that call) is followed by another one
        self.draining = True
        while True:
            sim.step(self.STEP_CAP * sim.depth)
            pend = self.m.pending_ids()
            far = (max(0.0, max(self.m.time_of(c) for c in pend) - self.m.now) if pend else 0.0) + 1.0
            cut_short = self.run_passes([far], use_pump=False)
            self.check_views("drain")
            if not cut_short:
                break
        self.final_accounting()
        c = self.counts
        sim.nontrivial = c["ran"] >= 3 and c["cancel"] >= 1 and c["resched"] >= 1 and self.ties >= 1


def run(sim):
    Scenario(sim).main()


MUTANTS = [
    "task.py Clock._sortCalls: ties reversed (sort reverse=True then reverse())  -- caught: same-time-creation-order",
    "task.py Clock.advance: getTime() <= seconds() + 0.125 (runs calls beyond the new time)  -- caught: not-before-time",
    "task.py Clock.callLater: canceller self.calls.remove -> no-op (cancelled call stays listed)  -- caught: getDelayedCalls-exact",
    "task.py Clock.advance: no _sortCalls() after each call  -- caught: earliest-first / runs-in-first-advance",
    "task.py Clock.advance: no _sortCalls() at the start  -- caught: runs-in-first-advance / earliest-first",
    "task.py Clock.advance: <= -> <  -- caught: runs-in-first-advance",
    "task.py Clock._sortCalls: key a.time (ignores delayed_time)  -- caught: runs-in-first-advance / earliest-first",
    "task.py Clock.advance: clock crawls call by call instead of jumping to the target first  -- caught: clock-reads-model-time / runs-in-first-advance",
    "task.py Clock.advance: re-entrancy flag set before the loop and cleared after it without try/finally (a failing call leaves it set; later advances run nothing)  -- caught (needs failing calls): runs-in-first-advance",
    "task.py Clock.advance: a failing call is put back at the head of the list (called = 0) before its exception is re-raised  -- caught (needs failing calls): getDelayedCalls-exact",
    "task.py Clock.advance: a failing call's exception is swallowed and ends the loop (advance returns normally with due calls left)  -- caught (needs failing calls): runs-in-first-advance",
    "task.py Clock.advance: the clock is read once before the loop instead of once per call (a call that let time pass and then scheduled work at the new time leaves it pending)  -- caught (needs advances from inside calls): runs-in-first-advance (advance / nested-advance)",
    "task.py Clock.advance: rightNow saved before and restored after each call (time that passed inside a call is undone)  -- caught (needs advances from inside calls): clock-reads-model-time / runs-in-first-advance",
]


freeze_heap()
